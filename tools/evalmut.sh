#!/bin/bash
# usage: evalmut.sh <mutant worktree> <property id> [more ids...]
# Runs the checks against a mutated copy of the repository in an isolated copy of /verif (so that the real /verif/coq/gen
# is never regenerated from a mutant).  Prints each check's last lines.
set -u
WT=$1; shift
COPY=/tmp/verif_mut_$$
rsync -a --exclude work --exclude .git /verif/ $COPY/
mkdir -p $COPY/work
for pid in "$@"; do
  echo "=== $pid against $WT"
  ( cd $COPY && VERIF_REPO=$WT timeout 3000 ./check $pid 2>&1 | grep -v conda | grep -v KNOWN-FINDING | tail -4 )
  f=$(ls -t $COPY/work/replays/${pid}_* 2>/dev/null | head -1)
  if [ -n "$f" ]; then /venv/bin/python - "$f" <<'PY'
import json,sys
r=json.load(open(sys.argv[1]))
v=r.get('violation')
if v: print('   violation:', v['key'], '|', str(v['what'])[:300])
for b in (r.get('no_longer_checks') or r.get('broken') or [])[:3]: print('   no longer checks:', str(b)[:300])
PY
  fi
done
rm -rf $COPY
