#!/bin/bash
# usage: reseed.sh <seed name>...   re-evaluates stored seeded changes against the current HEAD of /repo and the current checks
# (fresh scratch worktree per change under /tmp, removed afterwards; results rewrite seeded/<name>/meta.json)
set -u
for NAME in "$@"; do
  D=/verif/seeded/$NAME
  [ -f $D/patch.diff ] || { echo "no such seed $NAME"; continue; }
  WT=/tmp/re_$NAME
  git -C /repo worktree remove --force $WT >/dev/null 2>&1
  git -C /repo worktree add -f --detach $WT HEAD >/dev/null 2>&1 || { echo "worktree failed for $NAME"; continue; }
  ( cd $WT && git apply $D/patch.diff ) || { echo "patch does not apply: $NAME"; git -C /repo worktree remove --force $WT; continue; }
  mkdir -p $WT/_out; cp $D/demo.py $WT/_out/demo.py; [ -f $D/notes.md ] && cp $D/notes.md $WT/_out/notes.md
  PROPS=$(/venv/bin/python -c "import json;print(' '.join(json.load(open('$D/meta.json'))['checks_run']))")
  /verif/tools/seed.sh $WT $NAME $PROPS > /verif/work/reseed_$NAME.log 2>&1
  echo "$NAME: $(grep -c '"detected": true' /verif/work/reseed_$NAME.log) detected of $(echo $PROPS | wc -w) ($PROPS)"
  git -C /repo worktree remove --force $WT >/dev/null 2>&1
done
