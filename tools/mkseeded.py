#!/venv/bin/python
"""Regenerate seeded/README.md from the meta.json files."""
import glob, json, os
VERIF = os.path.dirname(os.path.dirname(os.path.abspath(__file__)))
rows = []
for f in sorted(glob.glob(os.path.join(VERIF, "seeded", "*", "meta.json"))):
    m = json.load(open(f))
    det = []
    for p, r in m["results"].items():
        if r["detected"]:
            how = [s for s in r["summary"] if s.startswith(("violation:", "no longer"))]
            det.append(f"**{p}**: " + ("; ".join(h[:160] for h in how) if how else "VIOLATION") + (" (no failing input found)" if r["no_failing_input_found"] else ""))
        else:
            det.append(f"{p}: not detected")
    diff = open(os.path.join(os.path.dirname(f), "patch.diff")).read()
    files = sorted({l[6:] for l in diff.splitlines() if l.startswith("+++ b/")})
    rows.append((m["name"], m["breaks_property"], ", ".join(files), "<br>".join(det)))
out = ["# Seeded changes (each confirmed: 46 tests pass with it, its demo fails with it and passes without it)", "",
       "| name | aimed at | files touched | what the checks reported (quick tier, isolated copy of /verif) |", "|---|---|---|---|"]
for r in rows:
    out.append("| " + " | ".join(r) + " |")
out.append("")
out.append("`meta.json` in each directory records what was run; `notes.md` is the author's description of the trigger.")
open(os.path.join(VERIF, "seeded", "README.md"), "w").write("\n".join(out) + "\n")
print("\n".join(out[:4 + len(rows)]))
