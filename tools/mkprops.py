#!/venv/bin/python
"""Write a props/Cxx.v file from a list of lemma names: each statement is printed by Coq (`Check @lemma`) and pasted in
full into the props file as `Theorem Cxx_<name> : <statement>. Proof. exact @lemma. Qed.`, so that the statement is
visible (and frozen) in props/ while the proof lives in proofs/.  Run by hand when a new lemma is promoted; the
generated file is committed.

usage: mkprops.py Cxx   (specifications are in tools/props_spec.py)"""
import os
import re
import subprocess
import sys

VERIF = os.path.dirname(os.path.dirname(os.path.abspath(__file__)))
COQ = os.path.join(VERIF, "coq")
sys.path.insert(0, os.path.join(VERIF, "tools"))
import props_spec  # noqa: E402

Q = ["-Q", "lib", "FT.lib", "-Q", "gen", "FT.gen", "-Q", "model", "FT.model", "-Q", "proofs", "FT.proofs", "-Q", "props", "FT.props"]


def coq_check(header, names):
    src = header + "\nSet Printing Width 120.\nSet Printing Depth 100000.\n" + "".join(f"Check @{n}.\n" for n in names)
    path = "/tmp/mkprops_check.v"
    open(path, "w").write(src)
    p = subprocess.run(["coqc"] + Q + [path], cwd=COQ, capture_output=True, text=True, timeout=900)
    if p.returncode != 0:
        raise SystemExit("Check failed:\n" + p.stdout[-3000:] + p.stderr[-3000:])
    out = p.stdout
    res = {}
    # blocks "@name\n     : type" or "name\n     : type"
    parts = re.split(r"^(?=@?[A-Za-z_][A-Za-z0-9_.']*\n\s+:)", out, flags=re.M)
    for b in parts:
        m = re.match(r"@?([A-Za-z_][A-Za-z0-9_.']*)\n\s+:\s(.*)", b, flags=re.S)
        if m:
            ty = m.group(2)
            ty = re.split(r"\n\nArguments ", ty)[0].rstrip()
            res[m.group(1)] = ty
    return res


def main():
    pid = sys.argv[1]
    spec = props_spec.SPEC[pid]
    header = spec["header"]
    names = [x[1] for x in spec["theorems"]]
    types = coq_check(header, names)
    out = [f"(* {pid}  {spec['title']}", "   Only statements and `exact`: the proofs are in proofs/.  Written by tools/mkprops.py from Coq's own printing of the",
           "   lemma statements; every statement is in full below so that it cannot be weakened without this file changing. *)",
           header.rstrip(), ""]
    for pre in spec.get("prelude", []):
        out.append(pre)
    for tname, lemma, comment in spec["theorems"]:
        short = lemma.split(".")[-1]
        ty = types.get(lemma) or types.get(short)
        if ty is None:
            raise SystemExit(f"no type printed for {lemma}: {sorted(types)}")
        out.append(f"(* {comment} *)")
        out.append(f"Theorem {pid}_{tname} :\n  {ty}.")
        out.append(f"Proof. exact @{lemma}. Qed.\n")
    for ex in spec.get("examples", []):
        out.append(ex)
    for tname, lemma, comment in spec["theorems"]:
        out.append(f"Print Assumptions {pid}_{tname}.")
    path = os.path.join(COQ, "props", f"{pid}.v")
    open(path, "w").write("\n".join(out) + "\n")
    p = subprocess.run(["coqc"] + Q + [f"props/{pid}.v"], cwd=COQ, capture_output=True, text=True, timeout=1800)
    if p.returncode != 0:
        print(p.stdout[-2000:], p.stderr[-3000:])
        raise SystemExit(f"props/{pid}.v does not compile")
    print(f"props/{pid}.v written and compiled: {len(spec['theorems'])} theorems")


if __name__ == "__main__":
    main()
