#!/venv/bin/python
"""Write MANIFEST.json from harness/propcfg.py (which properties have theorem files decides the claimed level)."""
import json
import os
import sys
VERIF = os.path.dirname(os.path.dirname(os.path.abspath(__file__)))
sys.path.insert(0, os.path.join(VERIF, "harness"))
import propcfg

TECH = {
    "proof": "Coq 8.16 theorems about a model regenerated from the source by py2coq + float-instance correspondence + implementation oracle",
    "other": "Coq theorems for the local mechanisms (model regenerated from source) + implementation oracle against exact solutions",
    "translation_validation": "three-way correspondence: generated Coq model (vm_compute, binary64) vs compiled vs interpreted kernels",
}
checks = []
for pid in sorted(propcfg.PROPS):
    c = propcfg.PROPS[pid]
    has = bool(c.get("props")) and os.path.exists(os.path.join(VERIF, "coq", c["props"]))
    level = c["level"] if has or c["level"] != "proof" else "other"
    checks.append({
        "property_id": pid,
        "quick_cmd": f"./check {pid} --tier quick",
        "thorough_cmd": f"./check {pid} --tier thorough",
        "evidence_file": f"evidence/{pid}.json",
        "replay_cmd_template": f"./check {pid} --replay {{path}}",
        "engine": "coq-py2coq",
        "level_claimed": {"category": level, "text": c["explanation"], "design_ref": f"DESIGN.md section 4 ({pid})"},
        "level_note": "trusted: Coq 8.16.1 kernel + vm_compute; the translator py2coq and the harness (validated by the "
                      "correspondence, not proved); standard-library axioms as listed per theorem in the evidence; NumPy/SciPy/"
                      "Numba/LLVM are not modelled. " + ("Theorem file: coq/" + c["props"] if has else "No theorem file yet: oracle + correspondence only."),
        "technique": TECH[level],
    })
m = {
    "version": 1,
    "setup_cmd": "./setup.sh",
    "hooks": {"guard": "FTEIKPY_VERIF", "enable": "no source hooks are needed: the checks drive the unmodified package through NUMBA_DISABLE_JIT / NUMBA_BOUNDSCHECK / NUMBA_CACHE_DIR / NUMBA_NUM_THREADS",
              "baseline_off_cmd": "cd /repo && /venv/bin/python -m pytest -ra -q -p no:cacheprovider --timeout=900 --continue-on-collection-errors",
              "source_commits": [], "add_only": True},
    "engines": [{"name": "coq-py2coq", "path": "check", "serves_properties": sorted(propcfg.PROPS),
                 "kind_free_text": "Python-ast -> Gallina translator, Coq 8.16.1 proofs, vm_compute correspondence, implementation oracles"}],
    "checks": checks,
    "notes": "Genuine defects repaired by fix: commits in /repo and known findings are listed in known_findings.json and DESIGN.md section 6.",
    "not_applicable": [],
}
json.dump(m, open(os.path.join(VERIF, "MANIFEST.json"), "w"), indent=1)
print("wrote MANIFEST.json with", len(checks), "checks")
