"""Which lemmas of proofs/ are promoted to property theorems (input of mkprops.py)."""

HDR_R = """From Coq Require Import ZArith List Bool Reals Lia Lra.
From FT.lib Require Import Num Arr ArrLemmas Lower NumArr.
From FT.gen Require Import Common Interp2d Interp3d Vinterp2d Vinterp3d FteikCommon Fteik2d Fteik3d Ray2d Ray3d.
{imports}
Import ListNotations.
Open Scope R_scope.
"""

HDR_G = """From Coq Require Import ZArith List Bool PrimFloat.
From FT.lib Require Import Num Arr ArrLemmas Lower NumArr.
From FT.gen Require Import Common Fteik2d Fteik3d.
{imports}
Import ListNotations.
Open Scope Z_scope.
"""

HDR_RAY = """From Coq Require Import ZArith List Bool Reals PrimFloat.
From FT.lib Require Import Num Arr ArrLemmas NumArr.
From FT.gen Require Import Common Interp2d Interp3d FteikCommon Ray2d Ray3d.
From FT.proofs Require Import NumFLaws Ray2dProofs.
From FT.proofs Require Ray3dProofs RaySafety2d RaySafety3d.
Import ListNotations.
Open Scope Z_scope.
"""

HDR_SAFE = """From Coq Require Import ZArith List Bool Reals PrimFloat.
From FT.lib Require Import Num Arr ArrLemmas NumArr.
From FT.gen Require Import Common Interp2d Interp3d Vinterp2d Vinterp3d Fteik2d Fteik3d Ray2d Ray3d.
From FT.proofs Require Import NumFLaws SafetyTools Safety2d SafetyInterp Ray2dProofs.
From FT.proofs Require Safety3d Ray3dProofs RaySafety2d RaySafety3d SafetySolveTools SafetySolve2d SafetySolve3d TruncLawsF.
Import ListNotations.
Open Scope Z_scope.
"""

SPEC = {
    "C14": {
        "title": "Grid evaluation is multilinear interpolation on the node axes (model: gen/Interp2d.v, gen/Interp3d.v)",
        "header": HDR_R.format(imports="From FT.proofs Require Import SSR InterpR Interp3R."),
        "theorems": [
            ("interp2d_outside", "InterpR.interp2d_outside", "every numeric instance (binary64 with NaN included): outside the hull - or for a NaN coordinate, whose comparisons are false - the fill value is returned"),
            ("interp2d_is_bilinear", "InterpR.interp2d_spec", "inside the hull (boundary included) the kernel equals the textbook bilinear formula on the enclosing cell (the last cell on a far face); axis = ascending, at least two nodes"),
            ("interp2d_node", "InterpR.interp2d_node", "node values are reproduced at every node, far faces and corners included"),
            ("interp2d_convex", "InterpR.interp2d_convex", "the value lies between the minimum and the maximum of the enclosing cell's corner values"),
            ("interp2d_multilinear_exact", "InterpR.interp2d_multilinear_exact", "any function a + b x + c y + d x y is reproduced exactly"),
            ("interp2d_continuous_faces", "InterpR.interp2d_continuous_faces", "the values computed from the two cells sharing a face agree on the face"),
            ("interp2d_axis_swap", "InterpR.interp2d_axis_swap", "relabelling the two axes (with the transposed field) does not change the value"),
            ("interp3d_outside", "Interp3R.interp3d_outside", "3D: fill value outside the hull / for NaN, every numeric instance"),
            ("interp3d_is_trilinear", "Interp3R.interp3d_spec", "3D: equals the textbook trilinear formula on the enclosing cell"),
            ("interp3d_node", "Interp3R.interp3d_node", "3D: node values reproduced"),
            ("interp3d_convex", "Interp3R.interp3d_convex", "3D: between min and max of the eight corners"),
            ("interp3d_multilinear_exact", "Interp3R.interp3d_multilinear_exact", "3D: the eight-term trilinear polynomial is reproduced exactly"),
            ("interp3d_continuous_faces", "Interp3R.interp3d_continuous_faces", "3D: continuity across the faces of all three axes"),
            ("interp3d_axis_swap_xy", "Interp3R.interp3d_axis_swap", "3D: swapping the first two axes"),
            ("interp3d_axis_swap_yz", "Interp3R.interp3d_axis_swap_yz", "3D: swapping the last two axes (with the previous one: all six relabellings)"),
        ],
        "examples": [
            "(* non-vacuity: a concrete ascending axis with two nodes *)",
            "Example C14_axis_inhabited : SSR.axis (mkarr [2%Z] [0; 1]) 2.",
            "Proof. repeat split; try reflexivity; try (compute; discriminate). intros i j [[Hi Hij] Hj]. assert (i = 0%Z) by lia. assert (j = 1%Z) by lia. subst. unfold get; simpl. lra. Qed.",
            "",
        ],
    },
    "C16": {
        "title": "resample and smooth change the sampling, not the physical model (hand model coq/model/GridMeta.v, tied by harness/corr_api.py)",
        "header": HDR_R.format(imports="From FT.model Require Import GridMeta.\nFrom FT.proofs Require Import GridMetaProofs."),
        "theorems": [
            ("resample_extent_preserved", "GridMetaProofs.resample_gridsize_extent", "exact arithmetic: on every axis new_shape * new_spacing = old_shape * old_spacing, i.e. the spacing is rescaled by old/new and the physical extent is unchanged"),
            ("resample_shape_origin", "GridMetaProofs.resample_meta_shape_origin", "the shape becomes the requested one and the origin is unchanged"),
            ("smooth_sigma_in_length_units", "GridMetaProofs.smooth_arg_unit_invariant", "the filter receives sigma / spacing per axis, so rescaling all lengths (sigma and spacing) by c leaves it unchanged"),
            ("smooth_metadata_unchanged", "GridMetaProofs.smooth_meta_unchanged", "smooth changes neither shape, spacing nor origin"),
        ],
        "examples": [
            "(* non-vacuity and a concrete instance: 3x4 cells with spacing (2,3) resampled to 6x8 gives spacing (1, 3/2) *)",
            "Example C16_resample_example : resample_gridsize (T:=R) [2; 3] [3%Z; 4%Z] [6%Z; 8%Z] = [2 * 3 / 6; 3 * 4 / 8].",
            "Proof. reflexivity. Qed.",
            "",
        ],
    },
    "C20": {
        "title": "Mesh export is geometrically faithful (hand model coq/model/MeshIO.v of the index arithmetic of fteikpy/_io.py, tied by harness/corr_api.py)",
        "header": """From Coq Require Import ZArith List Bool Lia.
From FT.model Require Import MeshIO.
From FT.proofs Require Import MeshIOProofs.
Import ListNotations.
Open Scope Z_scope.
""",
        "theorems": [
            ("point_carries_its_node_2d", "MeshIOProofs.pidx2_is_ravel", "2D: the point numbered pidx2 nx ix iz (Fortran-order ravel of the (x, z) mesh grid) is the entry [iz, ix] of the C-order raveled node data: every point carries the traveltime/gradient of the node at its location"),
            ("cell_carries_its_velocity_2d", "MeshIOProofs.cidx2_is_ravel", "2D: cell number cidx2 nx ix iz carries entry [iz, ix] of the raveled velocity model"),
            ("point_carries_its_node_3d", "MeshIOProofs.pidx3_is_ravel", "3D: point pidx3 is entry [iz, ix, iy] of the node data after transpose(1,2,0).ravel()"),
            ("cell_carries_its_velocity_3d", "MeshIOProofs.cidx3_is_ravel", "3D: cell cidx3 carries velocity [iz, ix, iy]"),
            ("point_numbers_in_range_2d", "MeshIOProofs.pidx2_range", "2D: node -> point number lands in 0..N-1"),
            ("point_numbering_injective_2d", "MeshIOProofs.pidx2_inj", "2D: distinct nodes get distinct points"),
            ("point_numbering_surjective_2d", "MeshIOProofs.pidx2_surj", "2D: every point number is a node"),
            ("point_numbers_in_range_3d", "MeshIOProofs.pidx3_range", "3D: in range"),
            ("point_numbering_injective_3d", "MeshIOProofs.pidx3_inj", "3D: injective"),
            ("cell_corners_distinct_2d", "MeshIOProofs.corners2_distinct", "2D: a cell connects four distinct points, the nodes (ix..ix+1, iz..iz+1)"),
            ("cell_corners_distinct_3d", "MeshIOProofs.corners3_distinct", "3D: a cell connects eight distinct points"),
            ("ray_segments_consecutive", "MeshIOProofs.ray_segments_consecutive", "ray polylines: every segment joins consecutive vertices, numbered from the ray's offset"),
            ("one_polyline_per_ray", "MeshIOProofs.rays_segments_length", "as many polylines as rays, in order"),
        ],
        "examples": [],
    },
    "C09": {
        "title": "Traveltime interpolation honours nodes, source and physical bounds (model: gen/Vinterp2d.v, gen/Vinterp3d.v)",
        "header": HDR_R.format(imports="From FT.proofs Require Import SSR InterpR Interp3R VinterpR Vinterp3R."),
        "theorems": [
            ("vinterp2d_outside", "VinterpR.vinterp2d_outside", "every numeric instance (binary64 with NaN): outside the hull or for a NaN coordinate the fill value is returned; the hull boundary counts as inside (the test uses <=)"),
            ("vinterp2d_source_cell_any_instance", "VinterpR.vinterp2d_source_cell_gen", "every numeric instance: a query in the source's cell gets vzero * distance"),
            ("vinterp2d_source", "VinterpR.vinterp2d_source", "0 at the source"),
            ("vinterp2d_source_cell", "VinterpR.vinterp2d_source_cell", "source-cell slowness x distance inside the source's cell"),
            ("vinterp2d_zero_corner", "VinterpR.vinterp2d_zero_corner", "a cell touching the source (a corner with time 0) also gets vzero * distance"),
            ("vinterp2d_spec", "VinterpR.vinterp2d_spec", "elsewhere: distance / (bilinear interpolant of the corners' apparent velocities distance/time) on the enclosing cell"),
            ("vinterp2d_spec_far_faces", "VinterpR.vinterp2d_spec_far_faces", "on a far face the same value is expressed with the corners of that face only"),
            ("vinterp2d_node", "VinterpR.vinterp2d_node", "the stored node value at every node that does not touch the source"),
            ("vinterp2d_bounds", "VinterpR.vinterp2d_bounds", "between distance/max and distance/min of the corners' apparent velocities"),
            ("vinterp2d_homogeneous_exact", "VinterpR.vinterp2d_homogeneous_exact", "exact on exact homogeneous node times"),
            ("vinterp3d_outside", "Vinterp3R.vinterp3d_outside", "3D: fill value, every numeric instance"),
            ("vinterp3d_source", "Vinterp3R.vinterp3d_source", "3D: 0 at the source"),
            ("vinterp3d_source_cell", "Vinterp3R.vinterp3d_source_cell", "3D: vzero * distance in the source cell"),
            ("vinterp3d_zero_corner", "Vinterp3R.vinterp3d_zero_corner", "3D: also in a cell with a zero-time corner"),
            ("vinterp3d_spec", "Vinterp3R.vinterp3d_spec", "3D: distance / trilinear interpolant of apparent velocities"),
            ("vinterp3d_node", "Vinterp3R.vinterp3d_node", "3D: node values"),
            ("vinterp3d_bounds", "Vinterp3R.vinterp3d_bounds", "3D: physical bounds"),
            ("vinterp3d_homogeneous_exact", "Vinterp3R.vinterp3d_homogeneous_exact", "3D: exact on homogeneous times"),
        ],
        "examples": [],
    },
    "C01": {
        "title": "Homogeneous media: traveltime equals distance over velocity - the exact-arithmetic mechanisms (model: gen/Fteik2d.v, gen/Fteik3d.v).  The global tolerances are examined on the implementation by the oracle.",
        "header": HDR_R.format(imports="From FT.proofs Require Import Sweep2dProofs OperatorsR SweepDargs.\nFrom FT.proofs Require Operators3R InitSym InitExact."),
        "theorems": [
            ("sweep2d_constants", "SweepDargs.sweep2d_through_dargs2", "a 2D pass hands every node update the tuple (dz, dx, 1/dz, 1/dx, 1/dz^2, 1/dx^2) and depends on the spacings only through it (every numeric instance)"),
            ("sweep3d_constants", "SweepDargs.sweep3d_through_dargs3", "a 3D pass hands every node update (dz, dx, dy, 1/dz^2, 1/dx^2, 1/dy^2, their pairwise products in the order zx, zy, xy, and their sum) - the constants the plane-wave exactness theorems below are stated for"),
            ("t_ana_is_distance_times_slowness", "OperatorsR.t_ana_exact", "the analytic seed: slowness x Euclidean distance from node (i,j) to the source at (zsa,xsa) in grid units, with per-axis spacings"),
            ("t_anad_is_its_gradient", "OperatorsR.t_anad_is_gradient", "its derivatives are the analytic gradient"),
            ("spherical_operator_exact", "OperatorsR.delta_spherical_exact", "the spherical operator returns the analytic time when its neighbours carry the analytic time (zero perturbations) and the sweep looks away from the source"),
            ("sweep_near_source_exact", "OperatorsR.sweep_spherical_homogeneous", "inside the 5-cell box one update with exact upwind values writes min(old, 1D candidates, analytic time)"),
            ("four_point_exact_on_plane_wave", "OperatorsR.four_point_exact_on_plane_wave", "far from the source: the 4-point operator is exact on a plane wave, any per-axis spacing"),
            ("three_point_exact_on_plane_wave", "OperatorsR.three_point_e_exact_on_plane_wave", "the 3-point operator is exact on a plane wave"),
            ("sweep_far_field_plane_wave", "OperatorsR.sweep_four_point_plane_wave", "the generated sweep, outside the box, applies exactly that operator to the upwind values"),
            ("t_ana_3d", "Operators3R.t_ana_exact", "3D analytic seed"),
            ("op3_exact_on_plane_wave", "Operators3R.op3_exact_on_plane_wave", "the 3D operator is exact on every plane wave with non-negative direction cosines"),
            ("sweep3d_plane_wave", "Operators3R.sweep_op3_plane_wave", "the generated 3D sweep applies it"),
            ("init_is_four_copies", "InitSym.fteik2d_p2_decompose", "off-node sources: the generated source-line initialisation is (by conversion) corners + east, west, down, up phases"),
            ("init_homogeneous_exact", "InitExact.fteik2d_init_homogeneous_exact", "homogeneous medium, source anywhere in its cell, any spacings: after the initialisation every node is either untouched (placeholder) or holds exactly slowness x distance, and the set of written nodes is init_set (corners of the source cell and the reached nodes of the two rows and two columns through it); in particular the admissibility guard of fix fdc5767 always passes there"),
            ("init_written_nodes", "InitExact.init_set_spelled_out", "which nodes are written"),
            ("init_homogeneous_signs", "InitExact.fteik2d_init_homogeneous_signs", "and the gradient signs recorded for them point away from the source"),
        ],
        "examples": [],
    },
    "C05": {
        "title": "Unit invariance: times scale linearly with slowness and with length - exact arithmetic over the generated kernels",
        "header": HDR_R.format(imports="From FT.model Require Import Api.\nFrom FT.proofs Require Import Sweep2dProofs OperatorsR ApiProofs.\nFrom FT.proofs Require Operators3R InitSym InitExact SolveScale2d."),
        "theorems": [
            ("t_ana_scale_slowness", "OperatorsR.t_ana_scale_slowness", "analytic seed: slowness scaling"),
            ("t_ana_scale_length", "OperatorsR.t_ana_scale_length", "analytic seed: length scaling (source position in grid units is unchanged)"),
            ("t_anad_scale_slowness", "OperatorsR.t_anad_scale_slowness", "seed and derivatives under slowness scaling"),
            ("t_anad_scale_length", "OperatorsR.t_anad_scale_length", "under length scaling the time scales and the derivative components are unchanged"),
            ("delta_scale_slowness", "OperatorsR.delta_scale_slowness", "local quadratic solver: homogeneous of degree one in slowness"),
            ("delta_scale_length", "OperatorsR.delta_scale_length", "and in length (inverse lengths scale by 1/c, inverse squares by 1/c^2) - this is the statement the off-node initialisation violated before fix 9faba2f"),
            ("sweep_scale_slowness", "OperatorsR.sweep_scale_slowness", "one node update commutes with slowness scaling, as long as the values involved stay below the absolute placeholder Big in both unit systems (hypotheses Hbig, Hbig': finding F10/F11)"),
            ("sweep_scale_length", "OperatorsR.sweep_scale_length_dargs", "one node update commutes with length scaling (same caveat)"),
            ("t_ana_3d_scale_slowness", "Operators3R.t_ana_scale_slowness", "3D seed"),
            ("t_ana_3d_scale_length", "Operators3R.t_ana_scale_length", "3D seed"),
            ("slowness_handed_to_kernel_scales", "ApiProofs.slowness_of_scale", "API layer (hand model coq/model/Api.v): dividing every velocity by c multiplies the slowness model handed to the kernel by c"),
            ("ray_default_budget_unit_invariant", "ApiProofs.ray_max_step_unit_invariant", "API layer: the default ray budget int(2*diagonal/step) is unchanged when all lengths are rescaled"),
            ("init_scale_slowness", "InitExact.fteik2d_init_scale_slowness", "the whole off-node source initialisation (sub-cell inverse distances dzi, dz2i included) under slowness scaling, heterogeneous media: times x c, placeholder entries stay (caveat Hbig: related entries are on the same side of the absolute placeholder 1e5 = finding F10/F11)"),
            ("init_scale_length", "InitExact.fteik2d_init_scale_length", "and under length scaling (dz, dx x c; source position in grid units unchanged)"),
            ("init_scale_slowness_ge1", "InitExact.fteik2d_init_scale_slowness_ge1", "for c >= 1 the caveat is a condition on the reference run alone"),
            ("init_down_is_transpose_of_east", "InitSym.down_is_transpose_of_east_explicit", "the down copy uses dz exactly where the east copy uses dx (transposition pairing)"),
            ("solve2d_scale_slowness", "SolveScale2d.fteik2d_scale_slowness", "the WHOLE 2D solver under slowness scaling by any c > 0: the scaled problem returns, vzero x c, every traveltime x c (or the placeholder in both runs) - under the placeholder caveats Hinit (initial grids reach the same nodes) and Hsweep (a condition on the reference run: candidates stay on one side of 1e5), i.e. outside findings F10/F11"),
            ("solve2d_scale_length", "SolveScale2d.fteik2d_scale_length", "and under scaling of dz, dx and the source by c (grid coordinates, cells, iflag unchanged)"),
            ("solve2d_scale_raises", "SolveScale2d.fteik2d_scale_raises", "the scaled problem raises iff the reference problem does (no caveat)"),
            ("solve2d_scale_slowness_bounded", "SolveScale2d.fteik2d_scale_slowness_bounded", "numeric form of the caveat for c >= 1: c * (M + N * 2 h S) < 1e5"),
        ],
        "examples": [],
    },
    "C18": {
        "title": "No axis is privileged: the local operators and the interpolators are symmetric under relabelling axes (exact arithmetic)",
        "header": HDR_R.format(imports="From FT.proofs Require Import SSR InterpR Interp3R Sweep2dProofs OperatorsR.\nFrom FT.proofs Require Operators3R InitSym."),
        "theorems": [
            ("t_ana_swap", "OperatorsR.t_ana_swap", "analytic seed: exchanging the roles of Z and X"),
            ("delta_swap", "OperatorsR.delta_swap", "local quadratic solver"),
            ("four_point_swap", "OperatorsR.four_point_swap", "4-point operator"),
            ("three_point_swap", "OperatorsR.three_point_swap", "the two 3-point operators are exchanged"),
            ("plane_operator_selection_swap", "OperatorsR.plane_t2d_swap", "the whole far-field operator selection (the order of the two 3-point tests is immaterial)"),
            ("spherical_operator_selection_swap", "OperatorsR.spherical_t2d_swap", "the near-source operator selection"),
            ("t_ana_3d_swap_zx", "Operators3R.t_ana_swap_zx", "3D seed: transposition Z<->X"),
            ("t_ana_3d_swap_zy", "Operators3R.t_ana_swap_zy", "3D seed: Z<->Y"),
            ("t_ana_3d_swap_xy", "Operators3R.t_ana_swap_xy", "3D seed: X<->Y"),
            ("interp2d_axis_swap", "InterpR.interp2d_axis_swap", "bilinear interpolation is equivariant under relabelling"),
            ("interp3d_axis_swap_xy", "Interp3R.interp3d_axis_swap", "trilinear: first two axes"),
            ("interp3d_axis_swap_yz", "Interp3R.interp3d_axis_swap_yz", "trilinear: last two axes"),
            ("init_is_four_copies", "InitSym.fteik2d_p2_decompose", "tie: the generated source initialisation IS (by conversion) corners, then the east, west, down and up phases below - each loop body two instances of one block, every numeric instance"),
            ("init_west_is_mirror_of_east", "InitSym.west_is_mirror_of_east_explicit", "the west loop on the x-mirrored problem gives the x-mirror of the east loop (times; sign component 1 negated), heterogeneous media, every shape, untouched cells included"),
            ("init_down_is_transpose_of_east", "InitSym.down_is_transpose_of_east_explicit", "the down loop on the transposed problem (dz and dx exchanged) gives the transpose of the east loop"),
            ("init_up_is_transpose_of_west", "InitSym.up_is_transpose_of_west_explicit", "up / west"),
            ("init_up_is_mirror_of_down", "InitSym.up_is_mirror_of_down_explicit", "up / down under the z-mirror"),
            ("init_mirrored_offsets", "InitSym.mirrored_dxw_is_dxe", "the sub-cell offsets the code computes on the mirrored problem are the exchanged ones when the source lies in its cell"),
        ],
        "examples": [],
    },
    "C08": {
        "title": "List (parallel) calls equal single calls: in the generated model every parallel loop is the map of the per-item kernel over the items, in input order (every numeric instance). The runtime (threads, chunks, backend, concurrent callers) is observed by the oracle.",
        "header": """From Coq Require Import ZArith List Bool.
From FT.lib Require Import Num Arr ArrLemmas NumArr.
From FT.gen Require Import Common Interp2d Interp3d Vinterp2d Vinterp3d Fteik2d Fteik3d.
From FT.proofs Require Import VectorizedProofs.
Import ListNotations.
Open Scope Z_scope.
""",
        "theorems": [
            ("interp2d_list_is_map", "VectorizedProofs.interp2d_vectorized_is_map", "model evaluation at a list of points = map of the single evaluations"),
            ("interp3d_list_is_map", "VectorizedProofs.interp3d_vectorized_is_map", "3D"),
            ("vinterp2d_list_is_map", "VectorizedProofs.vinterp2d_vectorized_is_map", "traveltime evaluation at a list of points"),
            ("vinterp3d_list_is_map", "VectorizedProofs.vinterp3d_vectorized_is_map", "3D"),
            ("dispatch_single", "VectorizedProofs.interp2d_dispatch_single", "a 1-D argument takes the scalar path"),
            ("dispatch_list", "VectorizedProofs.interp2d_dispatch_list", "a 2-D argument takes the list path on its columns"),
            ("solve2d_list_spec", "VectorizedProofs.fteik2d_vectorized_spec", "list solve = validation of every source, then the single solver mapped over the sources in order"),
            ("solve2d_list_is_map_of_singles", "VectorizedProofs.solve2d_list_is_map_of_singles", "if every single solve returns, the list solve returns exactly their results (traveltimes, gradients, source-cell slowness), in input order"),
            ("solve3d_list_is_map_of_singles", "VectorizedProofs.solve3d_list_is_map_of_singles", "3D"),
        ],
        "examples": [],
    },
    "C06": {
        "title": "Origin invariance: translating the axes, the source and the query points by one common vector leaves interpolated values unchanged (exact arithmetic over the generated interpolators); the solver kernels only ever receive source - origin.",
        "header": HDR_R.format(imports="From FT.model Require Import Api.\nFrom FT.proofs Require Import SSR InterpR Interp3R VinterpR Vinterp3R TranslateR ApiProofs."),
        "theorems": [
            ("axis_shift", "TranslateR.axis_shift", "a translated axis is an axis"),
            ("searchsorted_commutes_with_translation", "TranslateR.ssr_shift", "cell location commutes with translation, for any array"),
            ("interp2d_translate", "TranslateR.interp2d_translate", "model / gradient-grid evaluation: every query point, inside or outside the hull"),
            ("interp3d_translate", "TranslateR.interp3d_translate", "3D"),
            ("vinterp2d_translate", "TranslateR.vinterp2d_translate", "traveltime evaluation (source translated too): every case - outside, source cell, zero corner, far faces, generic"),
            ("vinterp3d_translate", "TranslateR.vinterp3d_translate", "3D"),
            ("omitting_origin_is_zero_origin", "TranslateR.shift_axis_0", "translating by zero changes nothing"),
            ("solver_receives_source_minus_origin", "ApiProofs.solve_args_origin_invariant", "API layer (hand model coq/model/Api.v, tied by harness/corr_api.py run_api): the solver kernel is handed (1/grid, spacing, source - origin), which does not change when origin and source are translated together"),
            ("node_axes_translate", "ApiProofs.axis_nodes_translate", "API layer: the node axes origin + spacing*k of a translated origin are the translated axes"),
        ],
        "examples": [],
    },
    "C02": {
        "title": "Heterogeneous media: the grid-line bound in layered media and the registration of cells to nodes (exact arithmetic over the generated sweep). First-order accuracy and refinement are examined by the oracle against exact solutions.",
        "header": HDR_R.format(imports="From FT.proofs Require Import Sweep2dProofs LayeredR.\nFrom FT.proofs Require InitSym OperatorsR Operators3R."),
        "theorems": [
            ("column_upper_bound_down", "LayeredR.column_upper_bound_down", "converged solution: going down a column from any row, the time grows by at most dz * (smallest slowness of the cells adjoining each edge crossed)"),
            ("column_upper_bound_up", "LayeredR.column_upper_bound_up", "and going up"),
            ("layered_grid_line_upper", "LayeredR.layered_grid_line_upper", "layered model, node source: the time n rows below the source is at most the cumulative sum of slowness x spacing over the cell rows between them - cell row c lies between node rows c and c+1"),
            ("node_update_2d_reads_these_cells", "OperatorsR.sweep_tt_eq", "which cell's slowness each operator of the generated 2D node update reads: the written value is min(old, 1D with the minimum over the two cells adjoining the edge, 2D with the upwind cell slow[i1, j1]) - spelled out in terms of named functions of the neighbours and of those cells"),
            ("node_update_3d_reads_these_cells", "Operators3R.sweep_tt_eq", "3D: 1D operators with the minimum over the four cells adjoining the edge, plane operators with the minimum over the two cells adjoining the face (clamped at the far faces by ny-2 / nx-2 / nz-2 of the RIGHT axis), 8-point operator with the upwind cell"),
            ("init_is_four_copies", "InitSym.fteik2d_p2_decompose", "off-node sources: the generated source-line initialisation is (by conversion) corners + east, west, down, up phases; the east phase accumulates slow[zsi, j-1] for the edge between nodes j-1 and j"),
            ("init_west_reads_the_mirror_cells", "InitSym.west_is_mirror_of_east_explicit", "the west phase reads exactly the mirror-image cells of the east phase (so the cell between nodes j and j+1 is cell j there as well), heterogeneous media"),
            ("init_down_reads_the_transposed_cells", "InitSym.down_is_transpose_of_east_explicit", "and the down phase the transposed ones, with dz for dx"),
            ("init_up_reads_the_mirror_cells", "InitSym.up_is_mirror_of_down_explicit", "up / down"),
        ],
        "examples": [],
    },
    "C11": {
        "title": "Gradient field: unit vectors that do not perturb the traveltimes (model: gen/Fteik2d.v, gen/Fteik3d.v, gen/Common.v)",
        "header": HDR_R.format(imports="From FT.proofs Require Import Sweep2dProofs Sweep3dProofs GradR Solve2dProofs Solve3dProofs."),
        "theorems": [
            ("sweep_tt_independent_of_grad", "Sweep2dProofs.sweep_tt_indep", "one node update: the traveltime written does not depend on the gradient flag nor on the sign array (every numeric instance: bit for bit)"),
            ("sweep2d_tt_independent_of_grad", "Sweep2dProofs.sweep2d_tt_indep", "a whole 2D pass"),
            ("sweep3d_tt_independent_of_grad", "Sweep3dProofs.sweep3d_tt_indep", "a whole 3D pass"),
            ("solve2d_tt_independent_of_grad", "Solve2dProofs.fteik2d_tt_indep_of_grad", "the whole 2D solver (source initialisation, sweeps, assembly): traveltime grid and source-cell slowness with return_gradient=True equal those without, in the source semantics (the compiled 3D build deviates by a few ulp: known finding F6)"),
            ("solve3d_tt_independent_of_grad", "Solve3dProofs.fteik3d_tt_indep_of_grad", "the whole 3D solver"),
            ("normalised_has_unit_norm_2d", "GradR.norm2d_normalised", "exact arithmetic: g / |g| has norm 1 (the assembly divides when |g| > 0)"),
            ("normalised_has_unit_norm_3d", "GradR.norm3d_normalised", "3D"),
            ("norm_zero_only_for_zero_vector", "GradR.norm2d_zero_iff", "the test |g| > 0 fails only for the zero vector"),
        ],
        "examples": [],
    },
    "C07": {
        "title": "More sweeps never increase a time and sweeping converges (model: gen/Fteik2d.v, gen/Fteik3d.v)",
        "header": HDR_G.format(imports="From FT.proofs Require Import NumFLaws Sweep2dProofs Sweep3dProofs FloatInstances Solve2dProofs Solve3dProofs."),
        "theorems": [
            ("sweep2d_lowers", "Sweep2dProofs.sweep2d_lowers", "one full 2D pass keeps the grid well formed and lowers every node or leaves it (le_or_same x y := x = y or x < y): every shape, every numeric instance with the two order laws"),
            ("sweep3d_lowers", "Sweep3dProofs.sweep3d_lowers", "3D"),
            ("binary64_order_laws", "NumFLaws.NumLawsF", "binary64 (all floats: NaN, infinities, signed zeros) satisfies the order laws, so the above hold bit for bit"),
            ("sweep2d_lowers_binary64", "FloatInstances.sweep2d_lowers_binary64", "the instance at binary64, spelled out"),
            ("sweep3d_lowers_binary64", "FloatInstances.sweep3d_lowers_binary64", "3D"),
            ("nsweep_is_an_iteration_count_2d", "Solve2dProofs.fteik2d_nsweep_iter", "the solver returns the nsweep-th iterate of one pass function started from an initial state that does not depend on nsweep: nsweep influences the result only as an iteration count"),
            ("nsweep_is_an_iteration_count_3d", "Solve3dProofs.fteik3d_nsweep_iter", "3D"),
            ("monotone_in_nsweep_2d", "Solve2dProofs.fteik2d_monotone_in_nsweep_le", "the traveltime at every node is non-increasing in nsweep (n <= m), bit for bit, for every instance with the order laws"),
            ("monotone_in_nsweep_3d", "Solve3dProofs.fteik3d_monotone_in_nsweep_le", "3D"),
            ("fixed_point_stays_2d", "Solve2dProofs.fteik2d_fixed_stays", "once an extra sweep changes nothing, every larger nsweep returns the same grid"),
            ("fixed_point_stays_3d", "Solve3dProofs.fteik3d_fixed_stays", "3D"),
            ("converges_binary64_2d", "Solve2dProofs.fteik2d_converges", "binary64: after finitely many sweeps further sweeps leave the whole grid bit-identical - for every input, no NaN-freeness or domain hypothesis (rank-sum argument on the floats)"),
            ("converges_binary64_3d", "Solve3dProofs.fteik3d_converges", "3D"),
        ],
        "examples": ["Example C07_okT_inhabited : Sweep2dProofs.okT 2 2 (full [2; 2] 1%float).", "Proof. exact FloatInstances.okT_inhabited. Qed.", ""],
    },
    "C03": {
        "title": "Solver total and sane: what is proved about the generated solver for all inputs (raise contract, shapes, 2D non-negativity in exact arithmetic); finite / bounded / zero-only-at-source and 3D non-negativity are examined on the implementation",
        "header": HDR_G.format(imports="From Coq Require Import Reals.\nFrom FT.proofs Require Import Sweep2dProofs Sweep3dProofs Solve2dProofs Solve3dProofs.\nFrom FT.proofs Require OperatorsR NonNeg2d Pos2d NonNeg3d Pos3d."),
        "theorems": [
            ("solve2d_raises_iff_source_outside", "Solve2dProofs.fteik2d_raises_iff", "the 2D solver raises ValueError exactly when the code's own domain test fails (comparisons as written: a NaN coordinate fails it) and otherwise returns; every numeric instance"),
            ("solve3d_raises_iff_source_outside", "Solve3dProofs.fteik3d_raises_iff", "3D"),
            ("initial_grid_shape_2d", "Solve2dProofs.fteik2d_init_okT", "the work grid has one more node than the model has cells along each axis and is well formed, through the whole source initialisation"),
            ("initial_grid_shape_3d", "Solve3dProofs.fteik3d_init_okT", "3D"),
            ("result_grid_shape_2d", "Solve2dProofs.fteik2d_monotone_in_nsweep_le", "hence every returned traveltime grid has that shape (okT conclusions) and later sweeps only lower it"),
            ("four_point_operator_causal", "NonNeg2d.four_point_ge_tev", "exact arithmetic: under its admissibility test the 4-point operator returns at least the diagonal neighbour's time (its radicand is non-negative there: four_point_radicand_nonneg)"),
            ("node_update_nonneg_2d", "NonNeg2d.sweep_nonneg", "one 2D node update keeps every traveltime >= 0 (slowness >= 0, spacings > 0; any indices, signs, shapes)"),
            ("pass_nonneg_2d", "NonNeg2d.sweep2d_nonneg", "a whole pass"),
            ("initialisation_nonneg_2d", "NonNeg2d.init_nonneg", "the state after the source initialisation: every entry is the placeholder, 0, an analytic time or a time that passed the admissibility guard against a non-negative neighbour (fix fdc5767)"),
            ("solve2d_nonneg", "NonNeg2d.fteik2d_nonneg_get", "every traveltime returned by the 2D solver is >= 0 and so is the reported source-cell slowness, for every model with non-negative slowness, every source, nsweep and flag"),
            ("four_point_operator_strictly_causal", "Pos2d.four_point_gt_tev", "with positive slowness the 4-point operator is strictly later than the diagonal neighbour"),
            ("solve2d_zero_iff_source_node", "Pos2d.fteik2d_zero_iff_source", "positive slowness: a returned traveltime is 0 exactly at the node where the solver's own frame puts the source (i_zsa, i_xsa: the source in grid units, snapped to a node when within eps); every other node is > 0"),
            ("solve2d_at_most_one_zero", "Pos2d.fteik2d_at_most_one_zero", "at most one node holds 0"),
            ("solve2d_zero_near_source", "Pos2d.fteik2d_zero_near_source", "in terms of the inputs only: a zero node is within 1e-15 of a cell of the given source"),
            ("node_update_3d_value", "NonNeg3d.sweep_tt_eq_guarded", "tie: the generated 3D node update writes node_value true = min(t0, 1D, 2D, guarded 8-point candidate), every numeric instance"),
            ("node_update_nonneg_3d", "NonNeg3d.sweep_nonneg_3d", "one 3D node update keeps every traveltime >= 0, all spacings (the 8-point candidate is discarded when earlier than the diagonally opposite corner: fix 7b708d7)"),
            ("pass_nonneg_3d", "NonNeg3d.sweep3d_nonneg", "a whole 3D pass"),
            ("solve3d_nonneg", "NonNeg3d.fteik3d_nonneg_get", "every traveltime returned by the 3D solver is >= 0, and the reported source-cell slowness, for every model with non-negative slowness, positive spacings, every source, nsweep and flag"),
            ("eight_point_unguarded_negative_iff_noncubic", "NonNeg3d.op3_negative_iff_noncubic", "record of the defect repaired by 7b708d7: the UNGUARDED 8-point operator admits non-negative neighbour times passing its own test with a negative result exactly when the three spacings are not all equal"),
            ("node_update_unguarded_refuted", "NonNeg3d.node_unguarded_refuted", "node-level witness over R for the pre-fix update: dz = dy = 1, dx = 1/2 writes -3/10"),
            ("eight_point_guard_noop_cubic", "NonNeg3d.t3d_guard_noop_cubic", "on cubic cells the guarded and the unguarded node values coincide: the fix changes nothing there"),
            ("solve3d_zero_at_source", "Pos3d.fteik3d_zero_at_source", "3D, positive slowness: a node coinciding with the source (no snapping in 3D: all three coordinates integral in grid units) holds 0"),
            ("solve3d_positive_off_node", "Pos3d.fteik3d_pos_off_node", "a source that is not on a node: every returned traveltime is > 0"),
            ("solve3d_zero_dichotomy", "Pos3d.fteik3d_zero_dichotomy", "full statement available for 3D: either 0 occurs only at the source node, or one of the <= 8 nodes whose cube-diagonal neighbour is the source holds 0 (the accepted 8-point candidate is only >= its diagonal corner, and 0 < 0 does not trip the guard)"),
            ("solve3d_zero_only_at_source_partial", "Pos3d.fteik3d_zero_only_at_source_partial", "PARTIAL: zero only at the source, under the hypothesis (on the returned grid) that none of those diagonal nodes holds 0; the hypothesis is also necessary (fteik3d_zero_only_at_source_iff_diag)"),
            ("solve3d_zero_only_at_source_refuted", "Pos3d.fteik3d_zero_only_at_source_refuted", "the unconditional 3D clause is REFUTED in exact arithmetic by a complete solve - slowness 2e5 / 9e5 on 1x2x1 cells of (1,4,1): times reach the placeholder 1e5 (known finding F11), an unvisited node passes for a time and the 8-point operator cancels to exactly 0 at node (1,0,1); binary64 kernel call reproduces it (Pos3d.Binary64), the public API does not (1/(1/2e5) is not 2e5)"),
        ],
        "examples": [],
    },
    "C13": {
        "title": "Invalid requests are reported by raising, identically for single and list calls (model: gen/Fteik2d.v, gen/Fteik3d.v; ray kernels: see C10)",
        "header": HDR_G.format(imports="From FT.gen Require Import Interp2d Interp3d FteikCommon Ray2d Ray3d.\nFrom FT.proofs Require Import Solve2dProofs Solve3dProofs VectorizedProofs Ray2dProofs.\nFrom FT.proofs Require Ray3dProofs."),
        "theorems": [
            ("single_solve2d_raises_iff_outside", "Solve2dProofs.fteik2d_raises_iff", "single solve: ValueError iff the source fails the domain test; otherwise it returns (no valid request raises)"),
            ("single_solve3d_raises_iff_outside", "Solve3dProofs.fteik3d_raises_iff", "3D"),
            ("list_solve2d_spec", "VectorizedProofs.fteik2d_vectorized_spec", "list solve = validation of every source in order, then the single solver mapped over the sources: no exception is raised from inside the parallel loop"),
            ("list_solve3d_spec", "VectorizedProofs.fteik3d_vectorized_spec", "3D"),
            ("list_solve2d_raises_if_some_source_outside", "VectorizedProofs.solve2d_list_raises_iff_some_source_outside", "an outside source at any position of the list makes the list call raise ValueError"),
            ("list_solve2d_returns_map_of_singles", "VectorizedProofs.solve2d_list_is_map_of_singles", "and when every source is inside the list call returns the single results, in order"),
            ("single_ray2d_value_error_iff_outside", "Ray2dProofs.ray2d_raises_value_error_iff", "single raytrace: ValueError iff the end point fails the hull test"),
            ("list_ray2d_spec", "Ray2dProofs.ray2d_vectorized_spec", "list raytrace: the non-raising core mapped over the end points, then the first negative count decides the exception - nothing is raised from inside the parallel loop"),
            ("list_ray2d_raises_like_first_failing_single", "Ray2dProofs.ray2d_list_raises_like_first_failing_single", "the list call raises e iff the first failing single call raises e, and returns the singles' results when none fails"),
            ("list_ray3d_raises_like_first_failing_single", "Ray3dProofs.ray3d_list_raises_like_first_failing_single", "3D"),
        ],
        "examples": [],
    },
    "C10": {
        "title": "Free-step rays run from source to receiver inside the grid (model: gen/Ray2d.v, gen/Ray3d.v; `while` loops are fuelled, and the theorems bound the fuel needed)",
        "header": HDR_RAY,
        "theorems": [
            ("terminates_within_budget_2d", "Ray2dProofs.ray2d_free_terminates", "free-step mode: with fuel max_step + 1 the tracer never runs out of fuel - every iteration stores a vertex and the budget test stops it (every numeric instance)"),
            ("terminates_within_budget_3d", "Ray3dProofs.ray3d_free_terminates", "3D"),
            ("count_range_2d", "Ray2dProofs.ray2d_core_count_range", "what the core returns: count = -1 (end point outside), -2 (budget exhausted) or 1 <= count < max_step, and the buffer keeps its shape: a returned ray never exceeds the budget, never a truncated ray"),
            ("count_range_3d", "Ray3dProofs.ray3d_core_count_range", "3D"),
            ("endpoints_2d", "Ray2dProofs.ray2d_1_endpoints", "a returned polyline has count+1 rows, starts exactly at the source and ends exactly at the requested end point"),
            ("endpoints_3d", "Ray3dProofs.ray3d_1_endpoints", "3D"),
            ("vertices_in_hull_2d", "Ray2dProofs.ray2d_vertices_in_hull", "exact arithmetic: every stored vertex lies inside the grid hull (each new point is clamped), both modes"),
            ("vertices_in_hull_3d", "Ray3dProofs.ray3d_vertices_in_hull", "3D"),
            ("value_error_iff_outside_2d", "Ray2dProofs.ray2d_raises_value_error_iff", "ValueError exactly when the end point fails the hull test (modulo fuel)"),
            ("nan_end_point_raises_2d", "Ray2dProofs.ray2d_nan_end_point_raises", "binary64: a NaN end point raises ValueError"),
        ],
        "examples": [],
    },
    "C15": {
        "title": "Grid-honouring rays terminate (model: gen/Ray2d.v, gen/Ray3d.v): explicit fuel bound, contract of returned rays",
        "header": HDR_RAY,
        "theorems": [
            ("terminates_2d", "Ray2dProofs.ray2d_honor_terminates", "grid-honouring mode: with fuel (max_step+1)*(nfree_max+2)+1 the tracer never runs out of fuel - every iteration either stores a vertex or counts one more step without a grid crossing, and either counter stops the loop (this is what fix 55db45e established; every numeric instance)"),
            ("terminates_3d", "Ray3dProofs.ray3d_honor_terminates", "3D"),
            ("terminates_either_mode_2d", "Ray2dProofs.ray2d_terminates", "the same bound holds for either mode"),
            ("count_range_2d", "Ray2dProofs.ray2d_core_count_range", "returned count is -1, -2 or within the budget; RuntimeError is reported exactly through -2"),
            ("endpoints_2d", "Ray2dProofs.ray2d_core_endpoints", "a returned ray: row 0 is the end point, row count is the source, buffer well formed"),
            ("endpoints_3d", "Ray3dProofs.ray3d_core_endpoints", "3D"),
            ("vertices_in_hull_2d", "Ray2dProofs.ray2d_vertices_in_hull", "exact arithmetic: every stored vertex lies inside the hull (clamping, grid magnetism and recomputed cell bounds included)"),
            ("vertices_in_hull_3d", "Ray3dProofs.ray3d_vertices_in_hull", "3D"),
            ("shrink_factor_range", "RaySafety2d.shrink_range", "exact arithmetic: the step-shortening factor of a point inside its cell box lies in [0, 1]"),
            ("shrink_factor_attained", "RaySafety2d.shrink_attained", "and is either 1 (the full step stays inside the box) or exactly the fraction that brings one coordinate onto a face of the box"),
            ("shrink_full_step_inside", "RaySafety2d.shrink_ge1_inside", "a factor >= 1 is 1 and the full step stays inside the box"),
            ("shortened_step_ends_on_a_face", "RaySafety2d.vertex_on_grid_line_2d", "a shortened step (factor < 1) ends, after both clamps, exactly on a face of the current cell"),
            ("vertices_on_grid_lines_2d", "RaySafety2d.ray2d_vertices_on_grid_lines", "whole ray, grid magnetism included: every interior vertex of a grid-honouring 2D ray has a coordinate that is exactly an axis node"),
        ],
        "examples": [],
    },
    "C12": {
        "title": "Memory safety of every compiled kernel: index obligations f_ok (wI = true) of the generated kernels hold for all shapes; for the ray buffers the value-semantics count range is the statement",
        "header": HDR_SAFE,
        "theorems": [
            ("sweep_ok_2d", "Safety2d.sweep_ok_true", "one 2D node update performs only in-range accesses, for every shape with >= 2 nodes per axis (1-cell-thick models included), in each of the four direction patterns the passes use"),
            ("sweep2d_ok", "Safety2d.sweep2d_ok_true", "a whole 2D pass (all four loop nests)"),
            ("sweep_ok_3d", "Safety3d.sweep_ok_true", "one 3D node update, eight direction patterns"),
            ("sweep3d_ok", "Safety3d.sweep3d_ok_true", "a whole 3D pass"),
            ("sign_invariant_initially", "Safety2d.sgn_inv_zeros", "gradient bookkeeping invariant sgn_inv: signs in {-1,0,1}, +1 only where the upwind neighbour i-1 exists, -1 only where i+1 exists - holds initially"),
            ("sign_invariant_through_initialisation", "Safety2d.init_preserves_sgn_inv", "through the off-node source initialisation"),
            ("sign_invariant_through_sweeps", "Safety2d.sweep2d_preserves_sgn_inv", "and through every pass"),
            ("gradient_assembly_ok", "Safety2d.assembly_ok_true", "hence the gradient assembly tt[i - sgn, j] only reads in range"),
            ("assembly_is_the_generated_code", "Safety2d.fteik2d_ok_assembly", "(tie: assembly_ok is literally the obligation text inside the generated fteik2d_ok)"),
            ("sweeps_and_assembly_ok", "Safety2d.tail_ok_true", "the nsweep loop followed by the assembly"),
            ("interp2d_ok", "SafetyInterp.interp2d_ok_true", "point evaluation: in range for every query point, axes with >= 2 nodes (le_lt_law: a <= b implies not b < a, proved for reals and binary64 below)"),
            ("interp3d_ok", "SafetyInterp.interp3d_ok_true", "3D"),
            ("vinterp2d_ok", "SafetyInterp.vinterp2d_ok_true", "traveltime evaluation"),
            ("vinterp3d_ok", "SafetyInterp.vinterp3d_ok_true", "3D"),
            ("le_lt_law_binary64", "SafetyInterp.le_lt_law_F", "the order law used above holds for binary64"),
            ("single_node_axis_refuted", "SafetyInterp.interp2d_ok_single_node_refuted", "the hypothesis 2 <= nx is needed: with a one-sample axis the kernel reads x[-2] out of range (known finding F13), witness by vm_compute"),
            ("ray_buffer_2d", "Ray2dProofs.ray2d_core_count_range", "ray buffer: every returned count is below max_step and the buffer is never reshaped"),
            ("ray_buffer_3d", "Ray3dProofs.ray3d_core_count_range", "3D"),
            ("shrink_ok", "RaySafety2d.shrink_ok_true_gen", "the step-shortening helper: masked selections have equal lengths, no index leaves its array"),
            ("ray2d_core_ok", "RaySafety2d.ray2d_core_ok_true", "the whole 2D tracing loop (cell lookup, gradient evaluation, vertex buffer) for every fuel, end point, source and step; grid-honouring mode needs no axis node below the first (axis_min), which every ascending axis satisfies"),
            ("ray2d_ok", "RaySafety2d.ray2d_1_ok_true", "the public single-ray entry point, reversal of the buffer prefix included"),
            ("ray3d_core_ok", "RaySafety3d.ray3d_core_ok_true", "3D"),
            ("ray3d_ok", "RaySafety3d.ray3d_1_ok_true", "3D entry point"),
            ("ray_ok_binary64_2d", "RaySafety2d.ray2d_core_ok_true_F", "binary64 instance (NaN included)"),
            ("ray_ok_binary64_3d", "RaySafety3d.ray3d_core_ok_true_F", "3D"),
            ("ray_axis_min_needed", "RaySafety2d.ray2d_core_ok_axis_min_refuted", "axis_min is needed in grid-honouring mode: with z = [0; -2^-30; 1] the magnetism snaps below z[0] and z[-1] is read (witness by vm_compute; such an axis is never produced by the API, whose axes ascend)"),
            ("ray_max_step_0_refuted", "RaySafety2d.ray2d_core_ok_max_step_0_refuted", "max_step >= 1 is needed: a zero-row buffer is written at row 0"),
            ("solve2d_ok", "SafetySolve2d.fteik2d_ok_true", "the WHOLE 2D solver (domain test, source cell lookup, both initialisation branches with all four loops and the admissibility guards, nsweep passes, gradient assembly) performs only in-range accesses, for every model with >= 1 cell per axis, positive spacings, every source (an outside source raises before any access), nsweep and flag - for every numeric instance satisfying TruncLaws (truncation of a non-negative quotient is non-negative; the rounded quotient of an in-domain source is a node index)"),
            ("solve2d_ok_reals", "SafetySolve2d.fteik2d_ok_true_R", "the real-number instance satisfies TruncLaws"),
            ("solve3d_ok", "SafetySolve3d.fteik3d_ok_true", "the whole 3D solver, every numeric instance satisfying TruncDivLaw"),
            ("solve3d_ok_binary64", "SafetySolve3d.fteik3d_ok_true_F", "binary64 satisfies TruncDivLaw (NaN and infinities included): the 3D statement is unconditional for the floats the code runs on"),
            ("trunc_div_law_binary64", "SafetySolveTools.TruncDivLawF", "the law itself"),
            ("on_node_branch_needs_bounded_grid", "SafetySolveTools.trunc_round_div_range_F_needs_bound", "for binary64 the second law (2D on-node branch tt[int(zsa), int(xsa)] = 0) is false without a bound on the number of cells: n = 2^53+3, d = 1, z = 2^53+4 passes the domain test and indexes node n+1 (witness by vm_compute; such grids do not fit in memory)"),
            ("on_node_law_binary64", "TruncLawsF.trunc_round_div_range_F", "binary64: with 1 <= n <= 2^50 cells the rounded quotient of an in-domain coordinate is a node index - all floats z, d (NaN, infinities, signed zeros, subnormal d, overflow of d*n, underflow of z/d), via Flocq"),
            ("solve2d_ok_binary64", "TruncLawsF.fteik2d_ok_true_F", "hence the whole 2D solver performs only in-range accesses on binary64, for every model with 1..2^50 cells per axis, positive spacings, every source (NaN included), nsweep and flag"),
            ("sign_invariant_3d", "SafetySolve3d.sweep3d_preserves_tinv3", "3D gradient bookkeeping invariant through every pass"),
            ("gradient_assembly_ok_3d", "SafetySolve3d.fteik3d_p1_ok_true", "3D gradient assembly reads in range under it"),
        ],
        "examples": [],
    },
}
