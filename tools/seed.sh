#!/bin/bash
# usage: seed.sh <mutant worktree> <seed name> <main property> [other properties to run]
# 1. confirms the mutant: suite passes with it, demo fails with it and passes without it
# 2. stores it under /verif/seeded/<name>/   3. runs the checks against it in an isolated copy of /verif
set -u
WT=$1; NAME=$2; shift 2
OUT=/verif/seeded/$NAME
export NUMBA_CACHE_DIR=$WT/.nbcache
cd $WT || exit 2
git diff -- fteikpy > /tmp/seed_patch_$$.diff
[ -s /tmp/seed_patch_$$.diff ] || { echo "no change in $WT"; exit 2; }
DEMO=$WT/_out/demo.py
echo "--- test suite with the change"
T=$(/venv/bin/python -m pytest -q -p no:cacheprovider --timeout=900 --deselect tests/test_meshio.py 2>&1 | tail -1); echo "$T"
echo "--- demo with the change"
PYTHONPATH=$WT timeout 900 /venv/bin/python $DEMO > /tmp/seed_with_$$.txt 2>&1; RC_WITH=$?; tail -3 /tmp/seed_with_$$.txt
git apply -R /tmp/seed_patch_$$.diff
echo "--- demo without the change"
PYTHONPATH=$WT timeout 900 /venv/bin/python $DEMO > /tmp/seed_without_$$.txt 2>&1; RC_WITHOUT=$?; tail -2 /tmp/seed_without_$$.txt
git apply /tmp/seed_patch_$$.diff
echo "rc with=$RC_WITH without=$RC_WITHOUT"
if [ "$RC_WITH" = "0" ] || [ "$RC_WITHOUT" != "0" ] || ! echo "$T" | grep -q "46 passed"; then echo "MUTANT NOT CONFIRMED"; exit 3; fi
mkdir -p $OUT
cp /tmp/seed_patch_$$.diff $OUT/patch.diff; cp $DEMO $OUT/demo.py; [ -f $WT/_out/notes.md ] && cp $WT/_out/notes.md $OUT/notes.md
/verif/tools/evalmut.sh $WT "$@" > /tmp/seed_eval_$$.txt 2>&1; cat /tmp/seed_eval_$$.txt
/venv/bin/python - "$OUT" "$NAME" "$T" "$RC_WITH" "$RC_WITHOUT" /tmp/seed_eval_$$.txt /tmp/seed_with_$$.txt "$@" <<'PY'
import json, sys, re
out, name, t, rcw, rcwo, evalf, withf = sys.argv[1:8]
props = sys.argv[8:]
ev = open(evalf).read()
res = {}
for p in props:
    m = re.search(r"=== %s against.*?(?====|\Z)" % p, ev, flags=re.S)
    blk = m.group(0) if m else ""
    res[p] = {"detected": "VIOLATION property=%s" % p in blk, "no_failing_input_found": "no-failing-input-found" in blk,
              "summary": [l.strip() for l in blk.splitlines() if l.strip().startswith(("[", "violation:", "no longer checks:"))][:4]}
meta = {"name": name, "breaks_property": props[0], "checks_run": props,
        "confirmed": {"test_suite_with_change": t.strip(), "demo_rc_with_change": int(rcw), "demo_rc_without_change": int(rcwo),
                      "demo_output_with_change": open(withf).read()[-600:]},
        "what_it_needs_to_manifest": (open(out + "/notes.md").read()[:1500] if __import__("os").path.exists(out + "/notes.md") else ""),
        "how_checked": "tools/seed.sh: pytest in the mutant worktree, demo with/without the change (git apply -R / git apply), then ./check <id> in an isolated copy of /verif with VERIF_REPO pointing at the mutant",
        "results": res}
json.dump(meta, open(out + "/meta.json", "w"), indent=1)
print(json.dumps(res, indent=1))
PY
rm -f /tmp/seed_*_$$.*
