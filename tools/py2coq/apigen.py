#!/usr/bin/env python3
"""apigen: fail-closed extractor of the NumPy/Python API layer of FTeikPy (fteikpy/_base.py, _grid.py, _solver.py).

Reads the source with `ast` only (the package is never imported) and writes <out>/ApiGen.v:
Gallina definitions translated from the expressions actually found at a fixed list of sites, polymorphic in the
numeric type of coq/lib/Num.v, plus the structural facts of those sites (argument order, which attribute is passed on)
as lists of strings.  proofs/ApiGenEq.v proves the generated definitions equal to the hand model (model/Api.v,
model/GridMeta.v) for every Num instance.

Sites (recognised by class + method name and by the shape of their statements):
  _base.py    BaseGrid.__init__, BaseGrid properties grid/gridsize/origin/shape (aliases used by the other sites)
              BaseGrid2D/3D  _ndim, properties zaxis/xaxis[/yaxis], resample (new gridsize), smooth (filter argument)
  _grid.py    TraveltimeGrid2D/3D.raytrace (stepsize default, max_step default, ray2d/ray3d call), .gradient
  _solver.py  Eikonal2D/3D.solve (kernel call, result objects)
  _fteik/...  parameter names of solve2d/solve3d/ray2d/ray3d (to bind the call arguments)
  round 3:    file closure (the package consists of exactly the known files), package surface (__init__.py of the
              package and of _fteik/_interp: import tables and __all__; __about__.py; _helpers.py), module and class
              level of _base.py/_grid.py/_solver.py (imports, the known classes, methods only)
  round 2:    BaseGrid2D/3D.__call__ and TraveltimeGrid2D/3D.__call__ (interp*/vinterp* wiring, parameter names from
              _interp/*.py), TraveltimeGrid2D/3D.gradient (None guard, component order), the constructors
              (TraveltimeGrid*, Eikonal* with the origin default, Grid*, BaseTraveltime), remaining BaseGrid members

Arithmetic (operators, literals, association, int->float conversions) is TRANSLATED, whatever it is; the statement
shape around it is CHECKED.  Anything unexpected at a site aborts with `file:line: reason`.

Exit codes: 0 ApiGen.v written (or unchanged); 2 source rejected / unreadable (a stale <out>/ApiGen.v is removed);
            1 internal error (Python traceback).  argparse usage errors also exit 2.
"""
import ast
import os
import sys
from fractions import Fraction

from util import mangle, zlit

FLT, INT, BOOL = "flt", "int", "bool"
COQTY = {FLT: "T", INT: "Z", BOOL: "bool"}


class Reject(Exception):
    def __init__(self, rel, node, msg):
        line = getattr(node, "lineno", node if isinstance(node, int) else 0)
        super().__init__(f"{rel}:{line}: {msg}")


# --------------------------------------------------------------------------------------------- small AST helpers
def U(node):
    return ast.unparse(node)


def dump_of(src, mode):
    t = ast.parse(src, mode=mode)
    return ast.dump(t.body if mode == "eval" else t.body[0])


def same(node, src):
    """structural equality of an expression node with the expression written in `src`"""
    return ast.dump(node) == dump_of(src, "eval")


def same_stmt(node, src):
    return ast.dump(node) == dump_of(src, "exec")


def is_self_attr(node, *attrs):
    return (isinstance(node, ast.Attribute) and isinstance(node.value, ast.Name) and node.value.id == "self"
            and node.attr in attrs and isinstance(node.ctx, ast.Load))


def is_name(node, *ids):
    return isinstance(node, ast.Name) and (not ids or node.id in ids)


def is_np(node, name):
    return (isinstance(node, ast.Attribute) and isinstance(node.value, ast.Name) and node.value.id == "np"
            and node.attr == name)


def int_const(node):
    if isinstance(node, ast.Constant) and isinstance(node.value, int) and not isinstance(node.value, bool):
        return node.value
    return None


def C(node):
    """source text quoted inside a Coq comment: must not open/close comments or strings"""
    t = node if isinstance(node, str) else ast.unparse(node)
    return t.replace("(*", "( *").replace("*)", "* )").replace('"', "'")


def nested_pair_list(rows):
    return "[" + ";\n   ".join("[" + "; ".join(f"({coq_str(a)}, {coq_str(b)})" for a, b in r) + "]" for r in rows) + "]"


class Subst(ast.NodeTransformer):
    """replace loaded names by expressions"""

    def __init__(self, mapping):
        self.mapping = mapping

    def visit_Name(self, node):
        if isinstance(node.ctx, ast.Load) and node.id in self.mapping:
            import copy
            return copy.deepcopy(self.mapping[node.id])
        return node


def subst(node, mapping):
    import copy
    return ast.fix_missing_locations(Subst(mapping).visit(copy.deepcopy(node)))


def coq_str(s):
    return '"' + s.replace('"', '""') + '"'


def str_list(items):
    return "[" + "; ".join(coq_str(s) for s in items) + "]"


def pair_list(items):
    return "[" + ";\n   ".join(f"({coq_str(a)}, {coq_str(b)})" for a, b in items) + "]"


# --------------------------------------------------------------------------------------------- one source file
class Src:
    def __init__(self, pkg, rel):
        self.rel = rel
        self.path = os.path.join(pkg, rel)
        try:
            with open(self.path) as f:
                text = f.read()
        except OSError as ex:
            raise Reject(rel, 0, f"cannot read: {ex.strerror}")
        try:
            self.tree = ast.parse(text, filename=self.path)
        except SyntaxError as ex:
            raise Reject(rel, ex.lineno or 0, f"syntax error: {ex.msg}")

    def err(self, node, msg):
        raise Reject(self.rel, node, msg)

    def cls(self, name):
        found = [n for n in self.tree.body if isinstance(n, ast.ClassDef) and n.name == name]
        if len(found) != 1:
            self.err(0, f"expected exactly one top-level class {name}, found {len(found)}")
        return found[0]

    def method(self, cls, name, prop=False):
        found = [n for n in cls.body if isinstance(n, (ast.FunctionDef, ast.AsyncFunctionDef)) and n.name == name]
        if len(found) != 1:
            self.err(cls, f"expected exactly one definition of {cls.name}.{name}, found {len(found)}")
        fn = found[0]
        if not isinstance(fn, ast.FunctionDef):
            self.err(fn, f"{cls.name}.{name} is not a plain function")
        decs = [U(d) for d in fn.decorator_list]
        if decs != (["property"] if prop else []):
            self.err(fn, f"{cls.name}.{name}: unexpected decorators {decs}")
        for sub in ast.walk(fn):
            if isinstance(sub, (ast.Global, ast.Nonlocal, ast.Yield, ast.YieldFrom, ast.Await, ast.Lambda,
                                ast.NamedExpr)) or (sub is not fn and isinstance(sub, (ast.FunctionDef, ast.ClassDef))):
                self.err(sub, f"{cls.name}.{name}: unsupported construct {type(sub).__name__}")
        return fn

    def body(self, fn):
        """statements without the docstring"""
        b = list(fn.body)
        if b and isinstance(b[0], ast.Expr) and isinstance(b[0].value, ast.Constant) and isinstance(b[0].value.value, str):
            b = b[1:]
        return b

    def params(self, fn, names, what):
        """positional parameters must be exactly `names` (after self); returns 'name=default' strings"""
        a = fn.args
        if a.vararg or a.kwarg or a.kwonlyargs or a.posonlyargs:
            self.err(fn, f"{what}: unexpected parameter kinds")
        got = [x.arg for x in a.args]
        if got != ["self"] + list(names):
            self.err(fn, f"{what}: parameters {got[1:]} where {list(names)} were expected")
        nd = len(a.defaults)
        out = []
        for k, x in enumerate(a.args[1:]):
            j = k + 1 - (len(a.args) - nd)
            out.append(x.arg if j < 0 else f"{x.arg}={U(a.defaults[j])}")
        return out

    def imports_from(self, module, level, name):
        for n in self.tree.body:
            if isinstance(n, ast.ImportFrom) and n.module == module and n.level == level:
                for al in n.names:
                    if al.name == name and al.asname is None:
                        return True
        return False

    def need_import(self, module, level, name):
        if not self.imports_from(module, level, name):
            self.err(0, f"expected `from {'.' * level}{module} import {name}`")
        # and nothing else may bind that name at top level
        for n in self.tree.body:
            if isinstance(n, (ast.FunctionDef, ast.ClassDef)) and n.name == name:
                self.err(n, f"{name} is redefined at top level")
            if isinstance(n, (ast.Assign, ast.AnnAssign, ast.AugAssign)):
                for sub in ast.walk(n):
                    if isinstance(sub, ast.Name) and sub.id == name and isinstance(sub.ctx, ast.Store):
                        self.err(n, f"{name} is rebound at top level")

    def need_np(self):
        ok = any(isinstance(n, ast.Import) and any(al.name == "numpy" and al.asname == "np" for al in n.names)
                 for n in self.tree.body)
        if not ok:
            self.err(0, "expected `import numpy as np`")


# --------------------------------------------------------------------------------------------- expressions
class Expr:
    """Typed translation of scalar arithmetic.  `atom(node)` maps site-specific sub-expressions to (text, type);
    names come from `env` (name -> (text, type)).  Same rendering as tools/py2coq/exprs.py."""

    def __init__(self, src, env, atom=None):
        self.src, self.env, self.atom = src, env, atom
        self.used = set()

    def err(self, node, msg):
        self.src.err(node, msg)

    def flt_lit(self, v, node):
        if v != v or v in (float("inf"), float("-inf")):
            self.err(node, "non-finite literal")
        fr = Fraction(repr(v))
        if fr.denominator == 1:
            if abs(fr.numerator) >= 2 ** 53:
                self.err(node, "integer-valued literal too large")
            return f"(nofZ {zlit(fr.numerator)})"
        if abs(fr.numerator) >= 2 ** 53 or fr.denominator >= 2 ** 53:
            self.err(node, f"literal {v!r} is not a quotient of two exactly representable integers")
        return f"(nofQ {zlit(fr.numerator)} {fr.denominator})"

    def coerce(self, txt, ty, want, node):
        if ty == want:
            return txt
        if ty == INT and want == FLT:
            return f"(nofZ {txt})"
        self.err(node, f"cannot use a value of type {ty} where {want} is expected")

    def ex(self, e):
        if self.atom is not None:
            r = self.atom(e)
            if r is not None:
                return r
        if isinstance(e, ast.Constant):
            v = e.value
            if isinstance(v, bool) or not isinstance(v, (int, float)):
                self.err(e, f"unsupported constant {v!r}")
            if isinstance(v, int):
                return zlit(v), INT
            return self.flt_lit(v, e), FLT
        if isinstance(e, ast.Name):
            if e.id in self.env:
                self.used.add(e.id)
                return self.env[e.id]
            self.err(e, f"name `{e.id}` is not available in this expression")
        if isinstance(e, ast.UnaryOp) and isinstance(e.op, ast.USub):
            if isinstance(e.operand, ast.Constant) and isinstance(e.operand.value, (int, float)) \
                    and not isinstance(e.operand.value, bool):
                v = -e.operand.value
                return (zlit(v), INT) if isinstance(v, int) else (self.flt_lit(v, e), FLT)
            t, ty = self.ex(e.operand)
            if ty == INT:
                return f"(- {t})", INT
            if ty == FLT:
                return f"(nneg {t})", FLT
            self.err(e, "unary minus on a non-number")
        if isinstance(e, ast.BinOp):
            return self.binop(e)
        if isinstance(e, ast.Call) and isinstance(e.func, ast.Name) and e.func.id in ("int", "float") \
                and len(e.args) == 1 and not e.keywords and not isinstance(e.args[0], ast.Starred):
            t, ty = self.ex(e.args[0])
            if ty not in (INT, FLT):
                self.err(e, f"{e.func.id}() of a non-number")
            if e.func.id == "float":
                return self.coerce(t, ty, FLT, e), FLT
            return (t, INT) if ty == INT else (f"(ntrunc {t})", INT)
        self.err(e, f"unsupported expression `{U(e)}` ({type(e).__name__})")

    def binop(self, e):
        op = e.op
        if isinstance(op, ast.Pow):
            b, bty = self.ex(e.left)
            r = e.right
            if not (isinstance(r, ast.Constant) and not isinstance(r.value, bool)
                    and isinstance(r.value, (int, float)) and r.value in (2, 0.5)):
                self.err(e, "only ** 2, ** 2.0 and ** 0.5 are supported")
            if bty == INT and isinstance(r.value, int):
                self.err(e, "integer ** 2 (exact integer arithmetic) is not supported here")
            if bty not in (INT, FLT):
                self.err(e, "power of a non-number")
            b = self.coerce(b, bty, FLT, e)
            return (f"(nsq {b})" if r.value == 2 else f"(nsqrt {b})"), FLT
        fl = {ast.Add: "nadd", ast.Sub: "nsub", ast.Mult: "nmul", ast.Div: "ndiv"}.get(type(op))
        if fl is None:
            self.err(e, f"unsupported operator {type(op).__name__}")
        l, lty = self.ex(e.left)
        r, rty = self.ex(e.right)
        if lty not in (INT, FLT) or rty not in (INT, FLT):
            self.err(e, f"arithmetic between {lty} and {rty}")
        if lty == INT and rty == INT and not isinstance(op, ast.Div):
            zop = {ast.Add: "+", ast.Sub: "-", ast.Mult: "*"}[type(op)]
            return f"({l} {zop} {r})", INT
        return f"({fl} {self.coerce(l, lty, FLT, e)} {self.coerce(r, rty, FLT, e)})", FLT


def fresh_names(src, node, names, taken):
    out = []
    for n in names:
        m = mangle(n)
        if m in taken or m in out:
            src.err(node, f"local name `{n}` clashes with another binder of the generated definition")
        out.append(m)
    return out


# --------------------------------------------------------------------------------------------- kernel entry points
def resolve_def(pkg, rel_dir, modname, name, depth=0):
    """find the top-level `def name` reached from `from .modname import name` inside directory rel_dir"""
    if depth > 4:
        raise Reject(rel_dir, 0, f"import chain for {name} too long")
    cands = [os.path.join(rel_dir, modname + ".py"), os.path.join(rel_dir, modname, "__init__.py")]
    rel = next((c for c in cands if os.path.isfile(os.path.join(pkg, c))), None)
    if rel is None:
        raise Reject(os.path.join(rel_dir, modname), 0, f"module providing {name} not found")
    s = Src(pkg, rel)
    defs = [n for n in s.tree.body if isinstance(n, (ast.FunctionDef, ast.ClassDef)) and n.name == name]
    if len(defs) > 1:
        s.err(defs[1], f"{name} defined more than once")
    if defs:
        if not isinstance(defs[0], ast.FunctionDef):
            s.err(defs[0], f"{name} is not a function")
        return s, defs[0]
    for n in s.tree.body:
        if isinstance(n, ast.ImportFrom) and n.level == 1 and n.module:
            for al in n.names:
                if al.name == name and al.asname is None:
                    return resolve_def(pkg, os.path.dirname(rel), n.module, name, depth + 1)
    s.err(0, f"{name} is neither defined nor re-exported here")


def plain_params(s, fn):
    a = fn.args
    if a.vararg or a.kwarg or a.kwonlyargs or a.posonlyargs:
        s.err(fn, f"{fn.name}: unexpected parameter kinds")
    names = [x.arg for x in a.args]
    nd = len(a.defaults)
    dfl = [(x.arg, U(d)) for x, d in zip(a.args[len(a.args) - nd:], a.defaults)]
    return names, dfl


# --------------------------------------------------------------------------------------------- the generator
class Gen:
    def __init__(self, pkg):
        self.pkg = pkg
        self.base = Src(pkg, "_base.py")
        self.grid = Src(pkg, "_grid.py")
        self.solver = Src(pkg, "_solver.py")
        self.defs = []      # Gallina text (inside the section)
        self.data = []      # Gallina text (strings, after the section)
        self.names = []     # names of everything generated, for the report

    def d(self, name, text):
        self.names.append(name)
        self.defs.append(text)

    def dat(self, name, ty, val):
        self.names.append(name)
        self.data.append(f"Definition {name} : {ty} :=\n  {val}.")

    # ---------------------------------------------------------------- BaseGrid: storage and aliases
    def base_grid(self):
        s = self.base
        s.need_np()
        c = s.cls("BaseGrid")
        init = s.method(c, "__init__")
        a = init.args
        if [x.arg for x in a.args] != ["self", "grid", "gridsize", "origin"] or a.vararg or a.kwonlyargs \
                or a.posonlyargs or a.defaults or not a.kwarg:
            s.err(init, "BaseGrid.__init__: parameters changed")
        want = {"_grid": "np.asarray(grid, dtype=np.float64)",
                "_gridsize": "tuple((float(x) for x in gridsize))",
                "_origin": "np.asarray(origin, dtype=np.float64)"}
        seen = {}
        for st in s.body(init):
            if isinstance(st, ast.Expr) and same(st.value, "super().__init__(**kwargs)"):
                continue
            if isinstance(st, ast.Assign) and len(st.targets) == 1 and isinstance(st.targets[0], ast.Attribute) \
                    and is_name(st.targets[0].value, "self") and st.targets[0].attr in want \
                    and st.targets[0].attr not in seen:
                at = st.targets[0].attr
                if not same(st.value, want[at]):
                    s.err(st, f"BaseGrid.__init__: self.{at} = {U(st.value)}  (expected {want[at]})")
                seen[at] = U(st.value)
                continue
            s.err(st, f"BaseGrid.__init__: unexpected statement `{U(st)}`")
        if set(seen) != set(want):
            s.err(init, "BaseGrid.__init__: a storage attribute is not initialised")
        self.dat("basegrid_init", "list (string * string)", pair_list([(k, seen[k]) for k in want]))
        self.base_store = [(k, ast.parse(want[k], mode="eval").body) for k in want]
        self.base_init_params = ["grid", "gridsize", "origin"]
        alias = {"grid": "self._grid", "gridsize": "self._gridsize", "origin": "self._origin",
                 "shape": "self._grid.shape"}
        for p, tgt in alias.items():
            fn = s.method(c, p, prop=True)
            b = s.body(fn)
            if len(b) != 1 or not isinstance(b[0], ast.Return) or b[0].value is None or not same(b[0].value, tgt):
                s.err(fn, f"BaseGrid.{p}: expected `return {tgt}`")
        # nobody below BaseGrid may override them
        for cn in ("BaseGrid2D", "BaseGrid3D"):
            cc = s.cls(cn)
            if [U(b) for b in cc.bases] != ["BaseGrid"] or cc.keywords:
                s.err(cc, f"{cn}: unexpected bases")
            for n in cc.body:
                if isinstance(n, ast.FunctionDef) and (n.name in alias or n.name in ("__init__", "__getitem__", "size", "ndim")):
                    s.err(n, f"{cn} overrides BaseGrid.{n.name}")
        self.dat("basegrid_props", "list (string * string)", pair_list(list(alias.items())))

    def check_subclass(self, s, cname, bases, forbidden):
        c = s.cls(cname)
        if [U(b) for b in c.bases] != bases or c.keywords:
            s.err(c, f"{cname}: bases {[U(b) for b in c.bases]} where {bases} were expected")
        for n in c.body:
            nm = None
            if isinstance(n, (ast.FunctionDef, ast.AsyncFunctionDef, ast.ClassDef)):
                nm = [n.name]
            elif isinstance(n, (ast.Assign, ast.AnnAssign, ast.AugAssign)):
                nm = [x.id for x in ast.walk(n) if isinstance(x, ast.Name) and isinstance(x.ctx, ast.Store)]
            for x in nm or []:
                if x in forbidden:
                    s.err(n, f"{cname} overrides `{x}`")
        return c

    def ndim_of(self, c, nd):
        s = self.base
        found = [n for n in c.body if isinstance(n, ast.Assign) and any(is_name(t, "_ndim") for t in n.targets)]
        if len(found) != 1 or len(found[0].targets) != 1 or int_const(found[0].value) != nd:
            s.err(c, f"{c.name}: expected `_ndim = {nd}`")

    # ---------------------------------------------------------------- site 1: axes
    def axes(self, c, nd):
        s = self.base
        tag = f"{nd}d"
        want = ["zaxis", "xaxis", "yaxis"][:nd]
        have = [n.name for n in c.body if isinstance(n, ast.FunctionDef) and n.name.endswith("axis")]
        if sorted(have) != sorted(want):
            s.err(c, f"{c.name}: axis properties {have} where {want} were expected")
        rows = []
        for p in want:
            fn = s.method(c, p, prop=True)
            if [x.arg for x in fn.args.args] != ["self"]:
                s.err(fn, f"{c.name}.{p}: parameters changed")
            b = s.body(fn)
            if len(b) != 1 or not isinstance(b[0], ast.Return) or b[0].value is None:
                s.err(fn, f"{c.name}.{p}: expected a single `return <expression>`")
            idx = {"origin": set(), "gridsize": set(), "shape": set()}

            def atom(e, idx=idx):
                if isinstance(e, ast.Subscript) and isinstance(e.ctx, ast.Load):
                    k = int_const(e.slice)
                    if is_self_attr(e.value, "_origin", "origin"):
                        if k is None or k < 0:
                            s.err(e, "origin subscript must be a non-negative integer literal")
                        idx["origin"].add(k)
                        return "o", FLT
                    if is_self_attr(e.value, "_gridsize", "gridsize"):
                        if k is None or k < 0:
                            s.err(e, "gridsize subscript must be a non-negative integer literal")
                        idx["gridsize"].add(k)
                        return "d", FLT
                    s.err(e, f"unexpected subscript `{U(e)}`")
                if isinstance(e, ast.Call):
                    if is_np(e.func, "arange") and len(e.args) == 1 and not e.keywords \
                            and isinstance(e.args[0], ast.Subscript) and is_self_attr(e.args[0].value, "shape") \
                            and int_const(e.args[0].slice) is not None and int_const(e.args[0].slice) >= 0:
                        idx["shape"].add(int_const(e.args[0].slice))
                        return "k", INT      # node number k of np.arange(n), an integer array
                    if not (isinstance(e.func, ast.Name) and e.func.id in ("int", "float")):
                        s.err(e, f"unexpected call `{U(e)}` (expected np.arange(self.shape[i]))")
                return None

            tr = Expr(s, {}, atom)
            txt, ty = tr.ex(b[0].value)
            txt = tr.coerce(txt, ty, FLT, b[0])
            for what, st in idx.items():
                if len(st) != 1:
                    s.err(b[0], f"{c.name}.{p}: {what} must be used with exactly one index, found {sorted(st)}")
            io, ig, ish = (next(iter(idx[w])) for w in ("origin", "gridsize", "shape"))
            self.d(f"axis_node_{tag}_{p}",
                   f"(* {s.rel}:{b[0].lineno}  {c.name}.{p}:  {C(b[0].value)}   (node k of the arange) *)\n"
                   f"Definition axis_node_{tag}_{p} (o d : T) (k : Z) : T :=\n{txt}.")
            self.d(f"axis_{tag}_{p}",
                   f"Definition axis_{tag}_{p} (origin gridsize : list T) (shape : list Z) : list T :=\n"
                   f"map (fun k : Z => axis_node_{tag}_{p} (nth {io}%nat origin (nofZ 0)) (nth {ig}%nat gridsize (nofZ 0)) k)"
                   f" (arange (nth {ish}%nat shape 0)).")
            rows.append(f"({coq_str(c.name + '.' + p)}, ({io}, {ig}, {ish}))")
        self.dat(f"axis_index_{tag}", "list (string * (Z * Z * Z))", "[" + "; ".join(rows) + "]")

    # ---------------------------------------------------------------- site 4: resample / smooth
    def resample(self, c, nd):
        s = self.base
        tag = f"{nd}d"
        fn = s.method(c, "resample")
        s.params(fn, ["new_shape", "method"], f"{c.name}.resample")
        body = s.body(fn)
        for st in body:
            if not isinstance(st, ast.Assign):
                s.err(st, f"{c.name}.resample: unexpected statement (only assignments are expected)")
        # the names the gridsize update reads: who assigns them, and when
        i_grid = [i for i, st in enumerate(body)
                  if any(isinstance(x, ast.Attribute) and is_name(x.value, "self") and x.attr == "_grid"
                         and isinstance(x.ctx, ast.Store) for t in st.targets for x in ast.walk(t))]
        i_old = [i for i, st in enumerate(body)
                 if any(is_name(x, "old_shape") and isinstance(x.ctx, ast.Store) for t in st.targets for x in ast.walk(t))]
        i_gs = [i for i, st in enumerate(body)
                if any(isinstance(x, ast.Attribute) and is_name(x.value, "self") and x.attr == "_gridsize"
                       and isinstance(x.ctx, ast.Store) for t in st.targets for x in ast.walk(t))]
        for st in body:
            for t in st.targets:
                for x in ast.walk(t):
                    if is_name(x, "new_shape") and isinstance(x.ctx, ast.Store):
                        s.err(st, f"{c.name}.resample: new_shape is reassigned")
        if len(i_old) != 1 or not same_stmt(body[i_old[0]], "old_shape = self.shape"):
            s.err(fn, f"{c.name}.resample: expected exactly one `old_shape = self.shape`")
        if len(i_grid) != 1:
            s.err(fn, f"{c.name}.resample: expected exactly one assignment to self._grid")
        if not i_old[0] < i_grid[0]:
            s.err(body[i_old[0]], f"{c.name}.resample: old_shape must be read before self._grid is replaced")
        if len(i_gs) != 1:
            s.err(fn, f"{c.name}.resample: expected exactly one assignment to self._gridsize")
        st = body[i_gs[0]]
        if not (len(st.targets) == 1 and isinstance(st.targets[0], ast.Attribute)):
            s.err(st, f"{c.name}.resample: unexpected form of the gridsize assignment")
        v = st.value
        if not (isinstance(v, ast.Call) and is_name(v.func, "tuple") and len(v.args) == 1 and not v.keywords
                and isinstance(v.args[0], ast.GeneratorExp) and len(v.args[0].generators) == 1):
            s.err(st, f"{c.name}.resample: expected `self._gridsize = tuple(<expr> for ... in zip(...))`")
        g = v.args[0].generators[0]
        if g.ifs or g.is_async or not (isinstance(g.iter, ast.Call) and is_name(g.iter.func, "zip") and not g.iter.keywords):
            s.err(st, f"{c.name}.resample: the generator must iterate over zip(...) without a filter")
        if not (isinstance(g.target, ast.Tuple) and all(isinstance(t, ast.Name) for t in g.target.elts)
                and len(g.target.elts) == len(g.iter.args)):
            s.err(st, f"{c.name}.resample: the loop target must be a tuple of names matching zip(...)")
        srcs = []
        for a in g.iter.args:
            if is_self_attr(a, "gridsize", "_gridsize"):
                srcs.append(("gridsize", FLT))
            elif is_name(a, "old_shape"):
                srcs.append(("old_shape", INT))
            elif is_name(a, "new_shape"):
                srcs.append(("new_shape", INT))
            else:
                s.err(a, f"{c.name}.resample: unexpected zip argument `{U(a)}`")
        if sorted(x for x, _ in srcs) != ["gridsize", "new_shape", "old_shape"]:
            s.err(st, f"{c.name}.resample: zip must range over the gridsize, old_shape and new_shape, once each")
        tn = fresh_names(s, st, [t.id for t in g.target.elts], set())
        env = {t.id: (m, ty) for t, m, (_, ty) in zip(g.target.elts, tn, srcs)}
        tr = Expr(s, env)
        txt, ty = tr.ex(v.args[0].elt)
        txt = tr.coerce(txt, ty, FLT, st)
        ps = " ".join(f"({m} : {COQTY[t]})" for m, (_, t) in zip(tn, srcs))
        self.d(f"resample_gridsize_elt_{tag}",
               f"(* {s.rel}:{st.lineno}  {c.name}.resample:  {C(v)} *)\n"
               f"Definition resample_gridsize_elt_{tag} {ps} : T :=\n{txt}.")
        self.d(f"resample_gridsize_{tag}",
               f"Definition resample_gridsize_{tag} (gridsize : list T) (old_shape new_shape : list Z) : list T :=\n"
               f"zipw3 resample_gridsize_elt_{tag} " + " ".join(x for x, _ in srcs) + ".")
        self.dat(f"resample_{tag}_zip", "list (string * string)",
                 pair_list([(t.id, U(a)) for t, a in zip(g.target.elts, g.iter.args)]))

    def smooth(self, c, nd):
        s = self.base
        tag = f"{nd}d"
        s.need_import("scipy.ndimage", 0, "gaussian_filter")
        fn = s.method(c, "smooth")
        s.params(fn, ["sigma"], f"{c.name}.smooth")
        b = s.body(fn)
        if len(b) != 2:
            s.err(fn, f"{c.name}.smooth: expected two statements (broadcast of sigma, filter call)")
        s0, s1 = b
        ok = (isinstance(s0, ast.Assign) and len(s0.targets) == 1 and is_name(s0.targets[0], "sigma")
              and isinstance(s0.value, ast.IfExp) and same(s0.value.test, "np.ndim(sigma) == 0")
              and same(s0.value.orelse, "np.asarray(sigma)"))
        if ok:
            f = s0.value.body
            ok = (isinstance(f, ast.Call) and is_np(f.func, "full") and len(f.args) == 2 and not f.keywords
                  and int_const(f.args[0]) is not None and int_const(f.args[0]) >= 0 and is_name(f.args[1], "sigma"))
        if not ok:
            s.err(s0, f"{c.name}.smooth: expected `sigma = np.full(<n>, sigma) if np.ndim(sigma) == 0 else np.asarray(sigma)`")
        n = int_const(s0.value.body.args[0])
        self.d(f"smooth_broadcast_{tag}",
               f"(* {s.rel}:{s0.lineno}  {c.name}.smooth:  {C(s0.value.body)}  for a scalar sigma *)\n"
               f"Definition smooth_broadcast_{tag} (sigma : T) : list T :=\nnp_full {n} sigma.")
        ok = (isinstance(s1, ast.Assign) and len(s1.targets) == 1 and isinstance(s1.targets[0], ast.Attribute)
              and is_name(s1.targets[0].value, "self") and s1.targets[0].attr == "_grid"
              and isinstance(s1.value, ast.Call) and is_name(s1.value.func, "gaussian_filter")
              and len(s1.value.args) == 2 and not s1.value.keywords and is_self_attr(s1.value.args[0], "_grid")
              and not isinstance(s1.value.args[1], ast.Starred))
        if not ok:
            s.err(s1, f"{c.name}.smooth: expected `self._grid = gaussian_filter(self._grid, <expression>)`")
        seen = set()

        def atom(e):
            if is_self_attr(e, "_gridsize", "gridsize"):
                seen.add("g")
                return "g", FLT
            return None

        tr = Expr(s, {"sigma": ("s", FLT)}, atom)
        txt, ty = tr.ex(s1.value.args[1])
        txt = tr.coerce(txt, ty, FLT, s1)
        if "sigma" not in tr.used or "g" not in seen:
            s.err(s1, f"{c.name}.smooth: the filter argument must depend on sigma and on the gridsize")
        self.d(f"smooth_arg_elt_{tag}",
               f"(* {s.rel}:{s1.lineno}  {c.name}.smooth:  {C(s1.value.args[1])}   (element by element) *)\n"
               f"Definition smooth_arg_elt_{tag} (s g : T) : T :=\n{txt}.")
        self.d(f"smooth_arg_{tag}",
               f"Definition smooth_arg_{tag} (sigma gridsize : list T) : list T :=\n"
               f"zipw smooth_arg_elt_{tag} sigma gridsize.")
        self.d(f"smooth_arg_scalar_{tag}",
               f"Definition smooth_arg_scalar_{tag} (sigma : T) (gridsize : list T) : list T :=\n"
               f"smooth_arg_{tag} (smooth_broadcast_{tag} sigma) gridsize.")
        self.dat(f"smooth_{tag}_call", "string * list string",
                 f"({coq_str('gaussian_filter')}, {str_list([U(a) for a in s1.value.args])})")

    # ---------------------------------------------------------------- site 2: raytrace
    def raytrace(self, nd):
        s = self.grid
        tag = f"{nd}d"
        cname, kern = f"TraveltimeGrid{nd}D", f"ray{nd}d"
        s.need_np()
        s.need_import("_fteik", 1, kern)
        for b in (f"BaseGrid{nd}D", "BaseTraveltime"):
            s.need_import("_base", 1, b)
        c = self.check_subclass(s, cname, [f"BaseGrid{nd}D", "BaseTraveltime"],
                                {"zaxis", "xaxis", "yaxis", "shape", "gridsize", "origin", "grid", "_ndim",
                                 "__getitem__", "size", "ndim", "resample", "smooth", "source",
                                 "__getattr__", "__getattribute__", "__setattr__"})
        fn = s.method(c, "raytrace")
        params = s.params(fn, ["points", "stepsize", "max_step", "honor_grid"], f"{cname}.raytrace")
        self.dat(f"raytrace_{tag}_params", "list string", str_list(params))
        b = s.body(fn)
        if len(b) != 4:
            s.err(fn, f"{cname}.raytrace: expected 4 statements (gradient, stepsize default, max_step default, return), found {len(b)}")
        s0, s1, s2, s3 = b
        if not same_stmt(s0, "gradient = self.gradient"):
            s.err(s0, f"{cname}.raytrace: expected `gradient = self.gradient`")

        # --- stepsize default
        if not (isinstance(s1, ast.If) and not s1.orelse and len(s1.body) == 1 and isinstance(s1.body[0], ast.Assign)
                and len(s1.body[0].targets) == 1 and is_name(s1.body[0].targets[0], "stepsize")):
            s.err(s1, f"{cname}.raytrace: expected `if <condition>: stepsize = <expression>`")
        t = s1.test
        if not (isinstance(t, ast.BoolOp) and isinstance(t.op, ast.Or)):
            s.err(t, f"{cname}.raytrace: the stepsize condition must be a disjunction containing `not stepsize`")
        parts, nnot = [], 0
        for v in t.values:
            if same(v, "not stepsize"):
                parts.append("(negb (optT_truthy stepsize))")
                nnot += 1
            elif is_name(v, "honor_grid"):
                parts.append("honor_grid")
            else:
                s.err(v, f"{cname}.raytrace: unexpected disjunct `{U(v)}` in the stepsize condition")
        if nnot != 1:
            s.err(t, f"{cname}.raytrace: `not stepsize` must occur exactly once (a None stepsize must take the default)")
        cond = "(" + " || ".join(parts) + ")"
        seen = set()

        def atom_min(e):
            if isinstance(e, ast.Call) and is_np(e.func, "min"):
                if len(e.args) == 1 and not e.keywords and is_self_attr(e.args[0], "_gridsize", "gridsize"):
                    seen.add("min")
                    return "(np_min gridsize)", FLT
                s.err(e, f"unexpected call `{U(e)}` (expected np.min(self._gridsize))")
            return None

        tr = Expr(s, {}, atom_min)
        txt, ty = tr.ex(s1.body[0].value)
        txt = tr.coerce(txt, ty, FLT, s1.body[0])
        self.d(f"ray_stepsize_{tag}",
               f"(* {s.rel}:{s1.lineno}  {cname}.raytrace:  if {C(t)}: stepsize = {C(s1.body[0].value)} *)\n"
               f"Definition ray_stepsize_{tag} (gridsize : list T) (stepsize : option T) (honor_grid : bool) : T :=\n"
               f"if {cond} then {txt} else optT_val stepsize.")

        # --- max_step default
        if not (isinstance(s2, ast.If) and not s2.orelse and same(s2.test, "not max_step")):
            s.err(s2, f"{cname}.raytrace: expected `if not max_step:` without else")
        sh = gs = None
        rest = []
        for st in s2.body:
            if isinstance(st, ast.Assign) and len(st.targets) == 1 and isinstance(st.targets[0], ast.Tuple) and not rest:
                names = st.targets[0].elts
                if not all(isinstance(x, ast.Name) for x in names) or len(names) != nd:
                    s.err(st, f"{cname}.raytrace: expected an unpacking into {nd} names")
                if is_self_attr(st.value, "shape") and sh is None:
                    sh = (st, [x.id for x in names])
                elif is_self_attr(st.value, "_gridsize", "gridsize") and gs is None:
                    gs = (st, [x.id for x in names])
                else:
                    s.err(st, f"{cname}.raytrace: unexpected unpacking `{U(st)}`")
            else:
                rest.append(st)
        if sh is None or gs is None:
            s.err(s2, f"{cname}.raytrace: expected `... = self.shape` and `... = self._gridsize` unpackings")
        if len(rest) != 2 or not all(isinstance(st, ast.Assign) and len(st.targets) == 1 for st in rest) \
                or not is_name(rest[0].targets[0], "max_dist") or not is_name(rest[1].targets[0], "max_step"):
            s.err(s2, f"{cname}.raytrace: expected `max_dist = ...` then `max_step = ...` after the unpackings")
        taken = {"stepsize", "max_step", "max_dist", "honor_grid", "gridsize"}
        zn = fresh_names(s, sh[0], sh[1], taken)
        fnm = fresh_names(s, gs[0], gs[1], taken | set(zn))
        env = {p: (m, INT) for p, m in zip(sh[1], zn)}
        env.update({p: (m, FLT) for p, m in zip(gs[1], fnm)})
        if len(env) != 2 * nd:
            s.err(s2, f"{cname}.raytrace: the unpacked names must be distinct")
        tr = Expr(s, env)
        dtxt, dty = tr.ex(rest[0].value)
        dtxt = tr.coerce(dtxt, dty, FLT, rest[0])
        ps = " ".join(f"({m} : Z)" for m in zn) + " " + " ".join(f"({m} : T)" for m in fnm)
        args = " ".join(zn + fnm)
        self.d(f"ray_max_dist_{tag}",
               f"(* {s.rel}:{rest[0].lineno}  {cname}.raytrace:  {C(sh[0])}; {C(gs[0])}; {C(rest[0])} *)\n"
               f"Definition ray_max_dist_{tag} {ps} : T :=\n{dtxt}.")
        env2 = dict(env)
        env2["max_dist"] = ("max_dist", FLT)
        env2["stepsize"] = ("stepsize", FLT)
        tr = Expr(s, env2)
        mtxt, mty = tr.ex(rest[1].value)
        if mty != INT:
            s.err(rest[1], f"{cname}.raytrace: max_step must be an integer (int(...)), got a float expression")
        self.d(f"ray_max_step_{tag}",
               f"(* {s.rel}:{rest[1].lineno}  {cname}.raytrace:  if not max_step: ... {C(rest[1])} *)\n"
               f"Definition ray_max_step_{tag} {ps} (stepsize : T) (max_step : option Z) : Z :=\n"
               f"if (negb (optZ_truthy max_step))\n"
               f" then (let max_dist : T := ray_max_dist_{tag} {args} in {mtxt})\n"
               f" else optZ_val max_step.")
        # the two defaults in statement order: max_step sees the UPDATED stepsize; the gridsize tuple is the unpacked one
        gl = "[" + "; ".join(fnm) + "]"
        self.d(f"raytrace_defaults_{tag}",
               f"(* {s.rel}:{s1.lineno}-{rest[1].lineno}  the two defaults, in statement order *)\n"
               f"Definition raytrace_defaults_{tag} {ps} (stepsize : option T) (max_step : option Z) (honor_grid : bool)"
               f" : T * Z :=\n"
               f"let stepsize' : T := ray_stepsize_{tag} {gl} stepsize honor_grid in\n"
               f"(stepsize', ray_max_step_{tag} {args} stepsize' max_step).")
        self.dat(f"raytrace_{tag}_unpack", "list (string * list string)",
                 f"[({coq_str('self.shape')}, {str_list(sh[1])}); ({coq_str('self._gridsize')}, {str_list(gs[1])})]")

        # --- the kernel call
        if not (isinstance(s3, ast.Return) and isinstance(s3.value, ast.Call) and is_name(s3.value.func, kern)):
            s.err(s3, f"{cname}.raytrace: expected `return {kern}(...)`")
        call = s3.value
        if call.keywords:
            s.err(call, f"{cname}.raytrace: keyword arguments in the {kern} call")
        axes_ok = ["zaxis", "xaxis", "yaxis"][:nd]
        for a in call.args:
            ok = (is_self_attr(a, *axes_ok) or is_self_attr(a, "_source")
                  or is_name(a, "stepsize", "max_step", "honor_grid")
                  or same(a, "np.asarray(points, dtype=np.float64)")
                  or (isinstance(a, ast.Attribute) and a.attr == "grid" and isinstance(a.value, ast.Subscript)
                      and is_name(a.value.value, "gradient") and int_const(a.value.slice) is not None
                      and 0 <= int_const(a.value.slice) < nd))
            if not ok:
                s.err(a, f"{cname}.raytrace: unexpected argument `{U(a)}` in the {kern} call")
        ks, kfn = resolve_def(self.pkg, "", "_fteik", kern)
        kparams, kdfl = plain_params(ks, kfn)
        args_u = [U(a) for a in call.args]
        if len(args_u) > len(kparams):
            s.err(call, f"{cname}.raytrace: {len(args_u)} arguments for {kern}{tuple(kparams)}")
        for p in kparams[len(args_u):]:
            if p not in dict(kdfl):
                s.err(call, f"{cname}.raytrace: no argument for parameter `{p}` of {kern}")
        self.dat(f"raytrace_{tag}_call", "string * list string", f"({coq_str(kern)}, {str_list(args_u)})")
        self.dat(f"{kern}_params", "list string", str_list(kparams))
        self.dat(f"raytrace_{tag}_binding", "list (string * string)", pair_list(list(zip(kparams, args_u))))

        # --- the gradient property the call reads
        self.gradient_prop(s, c, nd)

    # ---------------------------------------------------------------- site 3: solve
    def solve(self, nd):
        s = self.solver
        tag = f"{nd}d"
        cname, kern, ctor = f"Eikonal{nd}D", f"solve{nd}d", f"TraveltimeGrid{nd}D"
        s.need_np()
        s.need_import("_fteik", 1, kern)
        s.need_import("_grid", 1, ctor)
        s.need_import("_base", 1, f"BaseGrid{nd}D")
        c = self.check_subclass(s, cname, [f"BaseGrid{nd}D"],
                                {"zaxis", "xaxis", "yaxis", "shape", "gridsize", "origin", "grid", "_ndim", "__call__",
                                 "__getitem__", "size", "ndim", "resample", "smooth",
                                 "__getattr__", "__getattribute__", "__setattr__"})
        fn = s.method(c, "solve")
        params = s.params(fn, ["sources", "nsweep", "return_gradient"], f"{cname}.solve")
        self.dat(f"solve_{tag}_params", "list string", str_list(params))
        b = s.body(fn)
        if len(b) != 2:
            s.err(fn, f"{cname}.solve: expected 2 statements (kernel call, construction of the result), found {len(b)}")
        s0, s1 = b
        if not (isinstance(s0, ast.Assign) and len(s0.targets) == 1 and isinstance(s0.targets[0], ast.Tuple)
                and all(isinstance(x, ast.Name) for x in s0.targets[0].elts)
                and isinstance(s0.value, ast.Call) and is_name(s0.value.func, kern) and not s0.value.keywords):
            s.err(s0, f"{cname}.solve: expected `<names> = {kern}(<positional arguments>)`")
        targets = [x.id for x in s0.targets[0].elts]
        if len(targets) != 3 or len(set(targets)) != 3 or set(targets) & {"sources", "nsweep", "return_gradient", "self"}:
            s.err(s0, f"{cname}.solve: expected three distinct fresh result names")
        call = s0.value
        comps, tys, defs_here, args_u = [], [], [], []
        kinds = []
        for a in call.args:
            if isinstance(a, ast.Starred):
                if not is_self_attr(a.value, "_gridsize", "gridsize"):
                    s.err(a, f"{cname}.solve: unexpected starred argument `{U(a)}`")
                kinds.append("gridsize")
                comps.append("gridsize")
                tys.append("list T")
                args_u.append(U(a))
                continue
            if is_name(a, "nsweep"):
                kinds.append("nsweep"); comps.append("nsweep"); tys.append("Z"); args_u.append(U(a))
                continue
            if is_name(a, "return_gradient"):
                kinds.append("return_gradient"); comps.append("return_gradient"); tys.append("bool"); args_u.append(U(a))
                continue
            seen = set()

            def atom(e, seen=seen):
                if is_self_attr(e, "_grid", "grid"):
                    seen.add("grid")
                    return "v", FLT
                if is_self_attr(e, "_origin", "origin"):
                    seen.add("origin")
                    return "o", FLT
                if is_name(e, "sources"):
                    seen.add("sources")
                    return "s", FLT
                return None

            tr = Expr(s, {}, atom)
            txt, ty = tr.ex(a)
            txt = tr.coerce(txt, ty, FLT, a)
            if seen == {"grid"}:
                kinds.append("slowness")
                defs_here.append((f"solve_slowness_{tag}",
                                  f"(* {s.rel}:{a.lineno}  {cname}.solve:  {C(a)}   (element by element) *)\n"
                                  f"Definition solve_slowness_{tag} (v : T) : T :=\n{txt}."))
                comps.append(f"map solve_slowness_{tag} grid")
                tys.append("list T")
            elif seen == {"sources", "origin"}:
                kinds.append("source")
                defs_here.append((f"solve_source_{tag}",
                                  f"(* {s.rel}:{a.lineno}  {cname}.solve:  {C(a)}   (component by component) *)\n"
                                  f"Definition solve_source_{tag} (s o : T) : T :=\n{txt}."))
                comps.append(f"zipw solve_source_{tag} sources origin")
                tys.append("list T")
            else:
                s.err(a, f"{cname}.solve: argument `{U(a)}` is neither a function of the velocity grid alone nor of"
                         f" sources and origin")
            args_u.append(U(a))
        if sorted(kinds) != sorted(["slowness", "gridsize", "source", "nsweep", "return_gradient"]):
            s.err(call, f"{cname}.solve: the {kern} call must pass the slowness, *gridsize, the relative sources, nsweep and"
                        f" return_gradient, once each (found {kinds})")
        for nm, tx in defs_here:
            self.d(nm, tx)
        self.d(f"solve_args_{tag}",
               f"(* {s.rel}:{s0.lineno}  {cname}.solve:  {C(kern + '(' + ', '.join(args_u) + ')')}   in argument order *)\n"
               f"Definition solve_args_{tag} (grid gridsize origin sources : list T) (nsweep : Z) (return_gradient : bool)"
               f" : {' * '.join(tys)} :=\n({', '.join(comps)}).")
        ks, kfn = resolve_def(self.pkg, "", "_fteik", kern)
        kparams, kdfl = plain_params(ks, kfn)
        nstar = len(kparams) - (len(call.args) - 1)
        if nstar != nd:
            s.err(call, f"{cname}.solve: *gridsize would have to fill {nstar} parameters of {kern}{tuple(kparams)}, not {nd}")
        bound = []
        for a, u in zip(call.args, args_u):
            if isinstance(a, ast.Starred):
                bound += [f"{U(a.value)}[{i}]" for i in range(nd)]
            else:
                bound.append(u)
        self.dat(f"solve_{tag}_call", "string * list string", f"({coq_str(kern)}, {str_list(args_u)})")
        self.dat(f"{kern}_params", "list string", str_list(kparams))
        self.dat(f"solve_{tag}_binding", "list (string * string)", pair_list(list(zip(kparams, bound))))
        self.dat(f"solve_{tag}_targets", "list string", str_list(targets))

        # --- result objects
        gsrc = self.grid
        cfn = gsrc.method(gsrc.cls(ctor), "__init__")
        cparams, _ = plain_params(gsrc, cfn)
        cparams = cparams[1:]
        if not (isinstance(s1, ast.If) and same(s1.test, f"isinstance({targets[2]}, np.ndarray)")
                and len(s1.body) == 1 and len(s1.orelse) == 1
                and isinstance(s1.body[0], ast.Return) and isinstance(s1.orelse[0], ast.Return)):
            s.err(s1, f"{cname}.solve: expected `if isinstance({targets[2]}, np.ndarray): return [...] else: return ...`")
        multi, single = s1.body[0].value, s1.orelse[0].value

        def ctor_fields(callnode, rename):
            if not (isinstance(callnode, ast.Call) and is_name(callnode.func, ctor) and not callnode.args):
                s.err(callnode, f"{cname}.solve: expected {ctor}(<keyword arguments>)")
            got = {}
            for kw in callnode.keywords:
                if kw.arg is None or kw.arg in got or kw.arg not in cparams:
                    s.err(callnode, f"{cname}.solve: unexpected keyword `{kw.arg}` for {ctor}")

                def val(v):
                    if isinstance(v, ast.Name) and v.id in rename:
                        return rename[v.id]
                    if is_self_attr(v, "_gridsize", "_origin"):
                        return U(v)
                    s.err(v, f"{cname}.solve: unexpected value `{U(v)}` for {ctor}({kw.arg}=...)")

                v = kw.value
                if isinstance(v, ast.IfExp):
                    if not (is_name(v.test, "return_gradient") and isinstance(v.orelse, ast.Constant)
                            and v.orelse.value is None):
                        s.err(v, f"{cname}.solve: unexpected conditional `{U(v)}`")
                    got[kw.arg] = f"{val(v.body)} if return_gradient else None"
                else:
                    got[kw.arg] = val(v)
            if set(got) != set(cparams):
                s.err(callnode, f"{cname}.solve: {ctor} needs exactly the keywords {cparams}")
            return [(p, got[p]) for p in cparams]

        plain = {t: t for t in targets}
        plain["sources"] = "sources"
        single_f = ctor_fields(single, plain)
        if not (isinstance(multi, ast.ListComp) and len(multi.generators) == 1):
            s.err(multi, f"{cname}.solve: expected a list comprehension over zip(...)")
        g = multi.generators[0]
        if g.ifs or g.is_async or not (isinstance(g.iter, ast.Call) and is_name(g.iter.func, "zip") and not g.iter.keywords
                                       and all(isinstance(a, ast.Name) and a.id in plain for a in g.iter.args)
                                       and isinstance(g.target, ast.Tuple)
                                       and all(isinstance(t, ast.Name) for t in g.target.elts)
                                       and len(g.target.elts) == len(g.iter.args)):
            s.err(multi, f"{cname}.solve: expected `for <names> in zip(<sources and kernel results>)`")
        loopv = [t.id for t in g.target.elts]
        if len(set(loopv)) != len(loopv) or set(loopv) & (set(plain) | {"self", "nsweep", "return_gradient"}):
            s.err(multi, f"{cname}.solve: loop names must be fresh and distinct")
        ren = {t: f"{a.id}[i]" for t, a in zip(loopv, g.iter.args)}
        multi_f = ctor_fields(multi.elt, ren)
        self.dat(f"solve_{tag}_result_ctor", "string * list string", f"({coq_str(ctor)}, {str_list(cparams)})")
        self.dat(f"solve_{tag}_result_single", "list (string * string)", pair_list(single_f))
        self.dat(f"solve_{tag}_result_multi", "list (string * string)", pair_list(multi_f))

    # ---------------------------------------------------------------- round 2: remaining BaseGrid / BaseTraveltime members
    def base_other(self):
        s = self.base
        c = s.cls("BaseGrid")
        rows = []
        fn = s.method(c, "__getitem__")
        s.params(fn, ["islice"], "BaseGrid.__getitem__")
        b = s.body(fn)
        if len(b) != 1 or not isinstance(b[0], ast.Return) or b[0].value is None or not same(b[0].value, "self._grid[islice]"):
            s.err(fn, "BaseGrid.__getitem__: expected `return self._grid[islice]`")
        rows.append(("__getitem__(islice)", U(b[0].value)))
        for p, tgt in (("size", "self._grid.size"), ("ndim", "self._grid.ndim")):
            fn = s.method(c, p, prop=True)
            b = s.body(fn)
            if len(b) != 1 or not isinstance(b[0], ast.Return) or b[0].value is None or not same(b[0].value, tgt):
                s.err(fn, f"BaseGrid.{p}: expected `return {tgt}`")
            rows.append((p, tgt))
        members = sorted(n.name for n in c.body if isinstance(n, ast.FunctionDef))
        if members != sorted(["__init__", "__getitem__", "grid", "gridsize", "origin", "shape", "size", "ndim"]):
            s.err(c, f"BaseGrid: unexpected set of members {members}")
        self.dat("basegrid_other", "list (string * string)", pair_list(rows))
        # BaseTraveltime: storage of source / gradient / vzero
        t = s.cls("BaseTraveltime")
        if [U(b) for b in t.bases] != ["ABC"] or t.keywords:
            s.err(t, "BaseTraveltime: unexpected bases")
        init = s.method(t, "__init__")
        a = init.args
        tp = ["source", "gradient", "vzero"]
        if [x.arg for x in a.args] != ["self"] + tp or a.vararg or a.kwonlyargs or a.posonlyargs or a.defaults or not a.kwarg:
            s.err(init, "BaseTraveltime.__init__: parameters changed")
        seen = {}
        for st in s.body(init):
            if isinstance(st, ast.Expr) and same(st.value, "super().__init__(**kwargs)"):
                continue
            if isinstance(st, ast.Assign) and len(st.targets) == 1 and isinstance(st.targets[0], ast.Attribute) \
                    and is_name(st.targets[0].value, "self") and st.targets[0].attr in ("_source", "_gradient", "_vzero") \
                    and st.targets[0].attr not in seen and is_name(st.value, *tp):
                seen[st.targets[0].attr] = st.value
                continue
            s.err(st, f"BaseTraveltime.__init__: unexpected statement `{U(st)}`")
        order = ["_source", "_gradient", "_vzero"]
        if set(seen) != set(order):
            s.err(init, "BaseTraveltime.__init__: a storage attribute is not initialised")
        self.tt_store = [(k, seen[k]) for k in order]
        self.tt_init_params = tp
        self.dat("basetraveltime_init", "list (string * string)", pair_list([(k, U(seen[k])) for k in order]))
        fn = s.method(t, "source", prop=True)
        b = s.body(fn)
        if len(b) != 1 or not isinstance(b[0], ast.Return) or b[0].value is None or not same(b[0].value, "self._source"):
            s.err(fn, "BaseTraveltime.source: expected `return self._source`")
        members = sorted(n.name for n in t.body if isinstance(n, ast.FunctionDef))
        if members != ["__init__", "source"]:
            s.err(t, f"BaseTraveltime: unexpected set of members {members}")
        self.dat("basetraveltime_props", "list (string * string)", pair_list([("source", "self._source")]))

    # ---------------------------------------------------------------- round 2, site 5: point evaluation (__call__)
    def point_call(self, s, c, nd, prefix, kern, extra):
        """`return kern(axes..., self._grid, np.asarray(points, float64), [source, vzero,] fill_value)`"""
        tag = f"{nd}d"
        s.need_np()
        s.need_import("_interp", 1, kern)
        fn = s.method(c, "__call__")
        params = s.params(fn, ["points", "fill_value"], f"{c.name}.__call__")
        self.dat(f"{prefix}_{tag}_params", "list string", str_list(params))
        b = s.body(fn)
        if not (len(b) == 1 and isinstance(b[0], ast.Return) and isinstance(b[0].value, ast.Call)
                and is_name(b[0].value.func, kern)):
            s.err(fn, f"{c.name}.__call__: expected a single `return {kern}(...)`")
        call = b[0].value
        if call.keywords:
            s.err(call, f"{c.name}.__call__: keyword arguments in the {kern} call")
        axes_ok = ["zaxis", "xaxis", "yaxis"][:nd]
        for a in call.args:
            ok = (is_self_attr(a, *axes_ok) or is_self_attr(a, "_grid", *extra) or is_name(a, "fill_value")
                  or same(a, "np.asarray(points, dtype=np.float64)"))
            if not ok:
                s.err(a, f"{c.name}.__call__: unexpected argument `{U(a)}` in the {kern} call")
        ks, kfn = resolve_def(self.pkg, "", "_interp", kern)
        kparams, kdfl = plain_params(ks, kfn)
        args_u = [U(a) for a in call.args]
        if len(args_u) > len(kparams):
            s.err(call, f"{c.name}.__call__: {len(args_u)} arguments for {kern}{tuple(kparams)}")
        for p in kparams[len(args_u):]:
            if p not in dict(kdfl):
                s.err(call, f"{c.name}.__call__: no argument for parameter `{p}` of {kern}")
        self.dat(f"{prefix}_{tag}_call", "string * list string", f"({coq_str(kern)}, {str_list(args_u)})")
        self.dat(f"{kern}_params", "list string", str_list(kparams))
        self.dat(f"{kern}_defaults", "list (string * string)", pair_list(kdfl))
        self.dat(f"{prefix}_{tag}_binding", "list (string * string)", pair_list(list(zip(kparams, args_u))))

    # ---------------------------------------------------------------- round 2, site 6: the gradient property
    def gradient_prop(self, s, c, nd):
        tag = f"{nd}d"
        cname = c.name
        g = s.method(c, "gradient", prop=True)
        if [x.arg for x in g.args.args] != ["self"]:
            s.err(g, f"{cname}.gradient: parameters changed")
        gb = s.body(g)
        if len(gb) != 2:
            s.err(g, f"{cname}.gradient: expected two statements (None guard, list of grids)")
        g0, g1 = gb
        ok = (isinstance(g0, ast.If) and same(g0.test, "self._gradient is None") and not g0.orelse
              and len(g0.body) == 1 and isinstance(g0.body[0], ast.Raise) and g0.body[0].cause is None
              and isinstance(g0.body[0].exc, ast.Call) and isinstance(g0.body[0].exc.func, ast.Name)
              and len(g0.body[0].exc.args) == 1 and not g0.body[0].exc.keywords
              and isinstance(g0.body[0].exc.args[0], ast.Constant) and isinstance(g0.body[0].exc.args[0].value, str))
        if not ok:
            s.err(g0, f"{cname}.gradient: expected `if self._gradient is None: raise <Exception>(\"...\")`")
        exc = g0.body[0].exc.func.id
        lc = g1.value if isinstance(g1, ast.Return) else None
        if not (isinstance(lc, ast.ListComp) and len(lc.generators) == 1 and not lc.generators[0].ifs
                and not lc.generators[0].is_async and isinstance(lc.generators[0].target, ast.Name)):
            s.err(g1, f"{cname}.gradient: expected `return [<Grid>(...) for <k> in <indices>]`")
        gen = lc.generators[0]
        kv = gen.target.id
        it = gen.iter
        if isinstance(it, ast.Call) and is_name(it.func, "range") and len(it.args) == 1 and not it.keywords \
                and int_const(it.args[0]) is not None and int_const(it.args[0]) >= 0:
            ks = list(range(int_const(it.args[0])))
        elif isinstance(it, (ast.Tuple, ast.List)) and all(int_const(x) is not None and int_const(x) >= 0 for x in it.elts):
            ks = [int_const(x) for x in it.elts]
        else:
            s.err(it, f"{cname}.gradient: the component index must range over range(<n>) or a literal tuple, not `{U(it)}`")
        elt = lc.elt
        if not (isinstance(elt, ast.Call) and is_name(elt.func, "Grid2D", "Grid3D") and not elt.keywords
                and len(elt.args) == len(self.base_init_params) and not any(isinstance(a, ast.Starred) for a in elt.args)):
            s.err(elt, f"{cname}.gradient: expected Grid{nd}D(<component>, <gridsize>, <origin>)")
        ctor = elt.func.id
        ncomp = 0
        axis = None
        for a in elt.args:
            if is_self_attr(a, "_gridsize", "_origin"):
                continue
            if isinstance(a, ast.Subscript) and is_self_attr(a.value, "_gradient") and isinstance(a.slice, ast.Tuple):
                pos = [i for i, x in enumerate(a.slice.elts) if is_name(x, kv)]
                rest_ok = all(is_name(x, kv) or (isinstance(x, ast.Slice) and x.lower is None and x.upper is None
                                                 and x.step is None) for x in a.slice.elts)
                if len(pos) == 1 and rest_ok:
                    ncomp += 1
                    axis = pos[0]
                    continue
            s.err(a, f"{cname}.gradient: unexpected argument `{U(a)}` (expected self._gradient[:, ..., {kv}], "
                     f"self._gridsize or self._origin)")
        if ncomp != 1:
            s.err(elt, f"{cname}.gradient: exactly one argument must be a component of self._gradient")
        # Grid{nd}D.__init__ hands everything to BaseGrid.__init__
        for gnd in (2, 3):
            gname = f"Grid{gnd}D"
            gc = self.check_subclass(s, gname, [f"BaseGrid{gnd}D"],
                                     {"grid", "gridsize", "origin", "shape", "zaxis", "xaxis", "yaxis", "_ndim", "__call__",
                                      "__getitem__", "size", "ndim", "resample", "smooth",
                                      "__getattr__", "__getattribute__", "__setattr__"})
            gi = s.method(gc, "__init__")
            ga = gi.args
            if [x.arg for x in ga.args] != ["self"] or not ga.vararg or not ga.kwarg or ga.kwonlyargs or ga.posonlyargs \
                    or ga.vararg.arg != "args" or ga.kwarg.arg != "kwargs":
                s.err(gi, f"{gname}.__init__: expected (self, *args, **kwargs)")
            if not (len(s.body(gi)) == 1 and isinstance(s.body(gi)[0], ast.Expr)
                    and same(s.body(gi)[0].value, "super().__init__(*args, **kwargs)")):
                s.err(gi, f"{gname}.__init__: expected only `super().__init__(*args, **kwargs)`")
            self.dat(f"grid_{gnd}d_init", "string * string",
                     f"({coq_str('(self, *args, **kwargs)')}, {coq_str(U(s.body(gi)[0].value))})")
        # round-1 datum, kept as it was
        self.dat(f"raytrace_{tag}_gradient", "string * list string",
                 f"({coq_str(ctor)}, {str_list([U(a) for a in elt.args] + [U(it)])})")
        self.dat(f"gradient_{tag}_guard", "string * string", f"({coq_str(U(g0.test))}, {coq_str(exc)})")
        self.dat(f"gradient_{tag}_ctor", "string", coq_str(ctor))
        self.dat(f"gradient_{tag}_index", "list Z", "[" + "; ".join(str(k) for k in ks) + "]")
        self.dat(f"gradient_{tag}_axis", "Z * Z", f"({axis}, {len([a for a in elt.args if isinstance(a, ast.Subscript)][0].slice.elts)})")
        rows = []
        for k in ks:
            kc = ast.Constant(value=k)
            rows.append([(p, U(subst(a, {kv: kc}))) for p, a in zip(self.base_init_params, elt.args)])
        self.dat(f"gradient_{tag}_items", "list (list (string * string))", nested_pair_list(rows))

    # ---------------------------------------------------------------- round 2, site 7: constructors
    def super_keywords(self, s, fn, what, allowed_params, value_ok):
        b = s.body(fn)
        if not (len(b) == 1 and isinstance(b[0], ast.Expr) and isinstance(b[0].value, ast.Call)
                and same(b[0].value.func, "super().__init__") and not b[0].value.args):
            s.err(fn, f"{what}: expected only `super().__init__(<keyword arguments>)`")
        got = {}
        for kw in b[0].value.keywords:
            if kw.arg is None or kw.arg in got or kw.arg not in allowed_params:
                s.err(b[0], f"{what}: unexpected keyword `{kw.arg}` in super().__init__")
            if not value_ok(kw.value):
                s.err(kw.value, f"{what}: unexpected value `{U(kw.value)}` for {kw.arg}=")
            got[kw.arg] = kw.value
        if set(got) != set(allowed_params):
            s.err(b[0], f"{what}: super().__init__ needs exactly the keywords {allowed_params}")
        return got

    def tt_init(self, nd):
        s = self.grid
        tag = f"{nd}d"
        cname = f"TraveltimeGrid{nd}D"
        c = s.cls(cname)
        fn = s.method(c, "__init__")
        names = ["grid", "gridsize", "origin", "source", "gradient", "vzero"]
        params = s.params(fn, names, f"{cname}.__init__")
        self.dat(f"ttinit_{tag}_params", "list string", str_list(params))

        def conv(v):
            return (isinstance(v, ast.Call) and is_np(v.func, "asarray") and len(v.args) == 1 and is_name(v.args[0], *names)
                    and len(v.keywords) == 1 and v.keywords[0].arg == "dtype" and same(v.keywords[0].value, "np.float64"))

        def value_ok(v):
            if is_name(v, *names) or conv(v):
                return True
            return (isinstance(v, ast.IfExp) and isinstance(v.test, ast.Compare) and len(v.test.ops) == 1
                    and isinstance(v.test.ops[0], ast.IsNot) and is_name(v.test.left, *names)
                    and isinstance(v.test.comparators[0], ast.Constant) and v.test.comparators[0].value is None
                    and conv(v.body) and v.body.args[0].id == v.test.left.id
                    and isinstance(v.orelse, ast.Constant) and v.orelse.value is None)

        allp = self.base_init_params + self.tt_init_params
        got = self.super_keywords(s, fn, f"{cname}.__init__", allp, value_ok)
        self.dat(f"ttinit_{tag}_super", "list (string * string)", pair_list([(p, U(got[p])) for p in allp]))
        stored = [(k, U(subst(v, got))) for k, v in self.base_store + self.tt_store]
        self.dat(f"ttinit_{tag}_stored", "list (string * string)", pair_list(stored))

    def eikonal_init(self, nd):
        s = self.solver
        tag = f"{nd}d"
        cname = f"Eikonal{nd}D"
        c = s.cls(cname)
        fn = s.method(c, "__init__")
        names = ["grid", "gridsize", "origin"]
        params = s.params(fn, names, f"{cname}.__init__")
        self.dat(f"eikonal_{tag}_init_params", "list string", str_list(params))

        def dflt(v):
            return (isinstance(v, ast.IfExp) and isinstance(v.test, ast.Compare) and len(v.test.ops) == 1
                    and isinstance(v.test.ops[0], ast.IsNot) and is_name(v.test.left, "origin")
                    and isinstance(v.test.comparators[0], ast.Constant) and v.test.comparators[0].value is None
                    and is_name(v.body, "origin")
                    and isinstance(v.orelse, ast.Call) and is_np(v.orelse.func, "zeros") and len(v.orelse.args) == 1
                    and int_const(v.orelse.args[0]) is not None and int_const(v.orelse.args[0]) >= 0
                    and len(v.orelse.keywords) == 1 and v.orelse.keywords[0].arg == "dtype"
                    and same(v.orelse.keywords[0].value, "np.float64"))

        got = self.super_keywords(s, fn, f"{cname}.__init__", self.base_init_params,
                                  lambda v: is_name(v, "grid", "gridsize") or dflt(v))
        if not dflt(got["origin"]):
            s.err(got["origin"], f"{cname}.__init__: expected origin=origin if origin is not None else np.zeros(<n>, dtype=np.float64)")
        for p in ("grid", "gridsize"):
            if not is_name(got[p], "grid", "gridsize"):
                s.err(got[p], f"{cname}.__init__: the origin default may only be applied to the origin")
        n = int_const(got["origin"].orelse.args[0])
        self.d(f"eikonal_origin_{tag}",
               f"(* {s.rel}:{got['origin'].lineno}  {cname}.__init__:  origin={C(got['origin'])} *)\n"
               f"Definition eikonal_origin_{tag} (origin : option (list T)) : list T :=\n"
               f"match origin with Some origin' => origin' | None => np_zeros {n} end.")
        self.dat(f"eikonal_{tag}_init_super", "list (string * string)",
                 pair_list([(p, U(got[p])) for p in self.base_init_params]))
        self.dat(f"eikonal_{tag}_init_stored", "list (string * string)",
                 pair_list([(k, U(subst(v, got))) for k, v in self.base_store]))

    # ---------------------------------------------------------------- round 3: package surface and file closure
    KNOWN_FILES = ["__about__.py", "__init__.py", "_base.py", "_common.py", "_grid.py", "_helpers.py", "_io.py", "_solver.py",
                   "_fteik/__init__.py", "_fteik/_common.py", "_fteik/_fteik2d.py", "_fteik/_fteik3d.py",
                   "_fteik/_ray2d.py", "_fteik/_ray3d.py",
                   "_interp/__init__.py", "_interp/_interp2d.py", "_interp/_interp3d.py", "_interp/_vinterp2d.py",
                   "_interp/_vinterp3d.py"]
    LOADABLE = (".py", ".pyc", ".pyo", ".pyw", ".so", ".pyd", ".dll", ".dylib", ".pth")

    def file_closure(self):
        found = []
        for root, dirs, files in os.walk(self.pkg):
            dirs[:] = sorted(d for d in dirs if d != "__pycache__")
            for f in files:
                if f.endswith(self.LOADABLE):
                    found.append(os.path.relpath(os.path.join(root, f), self.pkg).replace(os.sep, "/"))
        for f in sorted(found):
            if f not in self.KNOWN_FILES:
                raise Reject(f, 0, "file is not part of the known package (no translator would read it)")
        for f in self.KNOWN_FILES:
            if f not in found:
                raise Reject(f, 0, "file of the known package is missing")
        self.dat("pkg_files", "list string", str_list(sorted(found)))

    @staticmethod
    def rows_list(rows):
        return "[" + ";\n   ".join(f"({coq_str(a)}, {str_list(b)})" for a, b in rows) + "]"

    def import_row(self, s, n, relative_only):
        if isinstance(n, ast.Import):
            if relative_only:
                s.err(n, f"only `from .module import names` is expected here, found `{U(n)}`")
            return ("import", [al.name + (f" as {al.asname}" if al.asname else "") for al in n.names])
        if relative_only and (n.level != 1 or not n.module):
            s.err(n, f"only `from .module import names` is expected here, found `{U(n)}`")
        for al in n.names:
            if al.name == "*":
                s.err(n, "star import")
            if relative_only and al.asname is not None:
                s.err(n, "renaming import")
        return ("." * n.level + (n.module or ""),
                [al.name + (f" as {al.asname}" if al.asname else "") for al in n.names])

    def all_list(self, s, n):
        """`__all__ = [<string literals>]` -> the names, else None"""
        if isinstance(n, ast.Assign) and len(n.targets) == 1 and is_name(n.targets[0], "__all__"):
            if not (isinstance(n.value, ast.List) and all(isinstance(x, ast.Constant) and isinstance(x.value, str)
                                                          for x in n.value.elts)):
                s.err(n, "__all__ must be a list of string literals")
            return [x.value for x in n.value.elts]
        return None

    def init_surface(self, rel, key):
        """an __init__.py: relative from-imports and one literal __all__, nothing else"""
        s = Src(self.pkg, rel)
        rows, al = [], None
        for i, n in enumerate(s.tree.body):
            if isinstance(n, ast.ImportFrom) or isinstance(n, ast.Import):
                rows.append(self.import_row(s, n, True))
                continue
            a = self.all_list(s, n)
            if a is not None:
                if al is not None:
                    s.err(n, "__all__ assigned twice")
                al = a
                continue
            if i == 0 and isinstance(n, ast.Expr) and isinstance(n.value, ast.Constant) and isinstance(n.value.value, str):
                continue
            s.err(n, f"unexpected module-level statement `{U(n).splitlines()[0]}` ({type(n).__name__})")
        if al is None:
            s.err(0, "no __all__")
        imported = [x for _, names in rows for x in names]
        if len(set(imported)) != len(imported):
            s.err(0, "a name is imported twice")
        for x in al:
            if x not in imported:
                s.err(0, f"__all__ exports `{x}`, which is not imported here")
        if len(set(al)) != len(al):
            s.err(0, "__all__ lists a name twice")
        self.dat(f"pkg_{key}_imports", "list (string * list string)", self.rows_list(rows))
        self.dat(f"pkg_{key}_all", "list string", str_list(al))

    def about_surface(self):
        s = Src(self.pkg, "__about__.py")
        rows = []
        for i, n in enumerate(s.tree.body):
            if i == 0 and isinstance(n, ast.Expr) and isinstance(n.value, ast.Constant) and isinstance(n.value.value, str):
                continue

            def simple(v):
                if isinstance(v, ast.Constant):
                    return isinstance(v.value, (str, int, float)) or v.value is None
                return isinstance(v, ast.Tuple) and all(simple(x) for x in v.elts)

            if isinstance(n, ast.Assign) and len(n.targets) == 1 and isinstance(n.targets[0], ast.Name) and simple(n.value):
                rows.append((n.targets[0].id, U(n.value)))
                continue
            s.err(n, f"unexpected module-level statement `{U(n).splitlines()[0]}` (only NAME = <literal> is expected)")
        if "__version__" not in [a for a, _ in rows]:
            s.err(0, "no __version__")
        self.dat("pkg_about", "list (string * string)", pair_list(rows))

    def helpers_surface(self):
        s = Src(self.pkg, "_helpers.py")
        rows, imps = [], []
        for i, n in enumerate(s.tree.body):
            if isinstance(n, ast.Import):
                imps.append(self.import_row(s, n, False))
                continue
            if i == 0 and isinstance(n, ast.Expr) and isinstance(n.value, ast.Constant) and isinstance(n.value.value, str):
                continue
            if isinstance(n, ast.FunctionDef) and not n.decorator_list and n.returns is None:
                names, dfl = plain_params(s, n)
                if dfl:
                    s.err(n, f"{n.name}: default values")
                b = s.body(n)
                ok = len(b) == 1 and isinstance(b[0], (ast.Return, ast.Expr)) and isinstance(b[0].value, ast.Call)
                if ok:
                    c = b[0].value
                    ok = (isinstance(c.func, ast.Attribute) and is_name(c.func.value, "numba") and not c.keywords
                          and all(is_name(a, *names) or (isinstance(a, ast.Constant) and not isinstance(a.value, str))
                                  for a in c.args))
                if not ok:
                    s.err(n, f"{n.name}: the body must be a docstring and one `[return] numba.<function>(<parameters>)`")
                rows.append((n.name, names, U(b[0])))
                continue
            s.err(n, f"unexpected module-level statement `{U(n).splitlines()[0]}` ({type(n).__name__})")
        if imps != [("import", ["numba"])]:
            s.err(0, f"expected exactly `import numba`, found {imps}")
        if len(set(r[0] for r in rows)) != len(rows):
            s.err(0, "a helper is defined twice")
        self.dat("helpers_imports", "list (string * list string)", self.rows_list(imps))
        self.dat("helpers_funcs", "list (string * (list string * string))",
                 "[" + ";\n   ".join(f"({coq_str(a)}, ({str_list(b)}, {coq_str(c)}))" for a, b, c in rows) + "]")

    def module_level(self, s, key, classes, only_init=()):
        """module level of an API module: imports and the known classes; class level: methods (and _ndim)"""
        rows, found = [], []
        for i, n in enumerate(s.tree.body):
            if isinstance(n, (ast.Import, ast.ImportFrom)):
                rows.append(self.import_row(s, n, False))
                continue
            a = self.all_list(s, n)
            if a is not None:
                rows.append(("__all__", a))
                continue
            if i == 0 and isinstance(n, ast.Expr) and isinstance(n.value, ast.Constant) and isinstance(n.value.value, str):
                continue
            if isinstance(n, ast.ClassDef):
                if n.decorator_list:
                    s.err(n, f"class {n.name} is decorated")
                found.append(n.name)
                for j, m in enumerate(n.body):
                    if isinstance(m, ast.FunctionDef):
                        continue
                    if j == 0 and isinstance(m, ast.Expr) and isinstance(m.value, ast.Constant) and isinstance(m.value.value, str):
                        continue
                    if isinstance(m, ast.Assign) and len(m.targets) == 1 and is_name(m.targets[0], "_ndim") \
                            and int_const(m.value) is not None:
                        continue
                    s.err(m, f"class {n.name}: unexpected class-level statement `{U(m).splitlines()[0]}`")
                if n.name in only_init:
                    members = [m.name for m in n.body if isinstance(m, ast.FunctionDef)]
                    if members != ["__init__"]:
                        s.err(n, f"{n.name}: unexpected set of members {members}")
                continue
            s.err(n, f"unexpected module-level statement `{U(n).splitlines()[0]}` ({type(n).__name__})")
        if found != classes:
            s.err(0, f"classes {found} where {classes} were expected")
        self.dat(f"mod_{key}_imports", "list (string * list string)", self.rows_list(rows))
        self.dat(f"mod_{key}_classes", "list string", str_list(found))

    def surface(self):
        self.file_closure()
        self.init_surface("__init__.py", "init")
        self.init_surface("_fteik/__init__.py", "fteik")
        self.init_surface("_interp/__init__.py", "interp")
        self.about_surface()
        self.helpers_surface()
        self.module_level(self.base, "base", ["BaseGrid", "BaseGrid2D", "BaseGrid3D", "BaseTraveltime"])
        self.module_level(self.grid, "grid", ["Grid2D", "Grid3D", "TraveltimeGrid2D", "TraveltimeGrid3D"],
                          only_init=("Grid2D", "Grid3D"))
        self.module_level(self.solver, "solver", ["Eikonal2D", "Eikonal3D"])

    # ---------------------------------------------------------------- all
    def run(self):
        self.surface()
        self.base_grid()
        self.base_other()
        for nd in (2, 3):
            c = self.base.cls(f"BaseGrid{nd}D")
            self.ndim_of(c, nd)
            self.axes(c, nd)
            self.resample(c, nd)
            self.smooth(c, nd)
            self.point_call(self.base, c, nd, "call", f"interp{nd}d", ())
            members = sorted(n.name for n in c.body if isinstance(n, ast.FunctionDef))
            if members != sorted(["__call__", "resample", "smooth"] + ["zaxis", "xaxis", "yaxis"][:nd]):
                self.base.err(c, f"{c.name}: unexpected set of members {members}")
        for nd in (2, 3):
            self.raytrace(nd)
            c = self.grid.cls(f"TraveltimeGrid{nd}D")
            self.point_call(self.grid, c, nd, "ttcall", f"vinterp{nd}d", ("_source", "_vzero"))
            self.tt_init(nd)
            members = sorted(n.name for n in c.body if isinstance(n, ast.FunctionDef))
            if members != sorted(["__init__", "__call__", "raytrace", "gradient"]):
                self.grid.err(c, f"{c.name}: unexpected set of members {members}")
        for nd in (2, 3):
            self.solve(nd)
            self.eikonal_init(nd)
            c = self.solver.cls(f"Eikonal{nd}D")
            members = sorted(n.name for n in c.body if isinstance(n, ast.FunctionDef))
            if members != ["__init__", "solve"]:
                self.solver.err(c, f"{c.name}: unexpected set of members {members}")
        # data names may repeat (ray2d_params ...) only with identical text
        seen = {}
        out = []
        for t in self.data:
            nm = t.split()[1]
            if nm in seen:
                if seen[nm] != t:
                    raise Reject("apigen", 0, f"internal: two different values for {nm}")
                continue
            seen[nm] = t
            out.append(t)
        self.data = out
        return PRELUDE + "\n\n".join(self.defs) + "\nEnd Gen.\n\n" + DATA_HEADER + "\n".join(self.data) + "\n"


PRELUDE = """(* GENERATED by apigen from _base.py, _grid.py, _solver.py -- do not edit *)
From Coq Require Import String ZArith List Bool.
From FT.lib Require Import Num.
Import ListNotations.
Open Scope Z_scope.
Open Scope bool_scope.
Set Implicit Arguments.

(* ---- fixed prelude: the meaning given to the NumPy / Python idioms of the API layer ---- *)
(* np.arange(n) *)
Definition arange (n : Z) : list Z := map Z.of_nat (seq 0 (Z.to_nat n)).
(* np.full(n, v) *)
Definition np_full (A : Type) (n : Z) (v : A) : list A := repeat v (Z.to_nat n).
(* element-by-element arithmetic of equally long sequences / zip(...) *)
Fixpoint zipw (A B C : Type) (f : A -> B -> C) (a : list A) (b : list B) : list C :=
  match a, b with x :: a', y :: b' => f x y :: zipw f a' b' | _, _ => [] end.
Fixpoint zipw3 (A B C D : Type) (f : A -> B -> C -> D) (a : list A) (b : list B) (c : list C) : list D :=
  match a, b, c with x :: a', y :: b', z :: c' => f x y z :: zipw3 f a' b' c' | _, _, _ => [] end.
(* truth value of an `int or None` argument, and its value where it is known not to be None *)
Definition optZ_truthy (x : option Z) : bool := match x with Some m => negb (m =? 0) | None => false end.
Definition optZ_val (x : option Z) : Z := match x with Some m => m | None => 0 end.

Section Gen.
Context {T : Type} `{Num T}.
(* np.min of a non-empty sequence (it raises on an empty one: the value chosen there is immaterial) *)
Definition np_min (l : list T) : T := match l with [] => nnan | x :: t => fold_left pymin2 t x end.
(* truth value of a `float or None` argument, and its value where it is known not to be None *)
Definition optT_truthy (x : option T) : bool := match x with Some s => ntruthy s | None => false end.
Definition optT_val (x : option T) : T := match x with Some s => s | None => nofZ 0 end.
(* np.zeros(n, dtype=np.float64) *)
Definition np_zeros (n : Z) : list T := np_full n (nofZ 0).

"""

DATA_HEADER = """(* ---- structural facts of the same sites, as data ---- *)
Open Scope string_scope.
"""


def write_if_changed(path, text):
    try:
        if open(path).read() == text:
            return False
    except OSError:
        pass
    with open(path, "w") as f:
        f.write(text)
    return True


def main(argv):
    import argparse
    ap = argparse.ArgumentParser(description=__doc__.split("\n")[0])
    ap.add_argument("--pkg", default="/repo/fteikpy")
    ap.add_argument("--out", required=True)
    ap.add_argument("--list", action="store_true", help="print the names of the generated definitions")
    a = ap.parse_args(argv)
    target = os.path.join(a.out, "ApiGen.v")
    try:
        g = Gen(a.pkg)
        text = g.run()
    except Reject as ex:
        try:
            os.remove(target)
        except OSError:
            pass
        print(f"apigen: REJECTED {ex}", file=sys.stderr)
        return 2
    os.makedirs(a.out, exist_ok=True)
    changed = write_if_changed(target, text)
    print("ApiGen ok" + (" (changed)" if changed else " (unchanged)"))
    if a.list:
        for n in g.names:
            print(" ", n)
    return 0


if __name__ == "__main__":
    sys.exit(main(sys.argv[1:]))
