#!/usr/bin/env python3
"""iogen: fail-closed extractor of the mesh-export layer of FTeikPy (fteikpy/_io.py).

Reads the source with `ast` only (the package is never imported) and writes <out>/IoGen.v: Gallina definitions
translated from the expressions and the data flow actually found at a fixed list of sites, plus the structural facts of
those sites as lists of strings.  proofs/IoGenEq.v proves the generated definitions equal to the hand model
(model/MeshIO.v) for all inputs (and for every Num instance where coordinates are involved).

Sites (recognised by function name and by the shape of their statements):
  _generate_mesh_2d / _generate_mesh_3d
        inner meshgrid(...)       which np.meshgrid outputs are returned, raveled in which order   -> rows of the result
        inner mesh_vertices(...)  the corner index lists, in order                                 -> list (list Z)
        <v> = np.arange(..) * d + x0     node count and node formula (over Num T)
        <v> = [int expressions]          the shapes handed to ravel_multi_index / arange
        <a, b> = meshgrid(...)           which arrays / aranges are combined, in which argument order
        points / cells comprehensions    zip order, element order, np.ravel_multi_index(vertex, shape, order=...)
  _ravel_grid                 grid.ravel() / np.transpose(grid, axes).ravel(), per ndim   -> position of grid[idx]
  ray_to_meshio               cell = np.arange(len(ray)) + len(points); column_stack of two slices; how len(points) evolves
  grid_to_meshio              unpack order of shape / gridsize / origin, node->cell adjustment, argument binding of the
                              mesh generators, the statements that post-process `points`, the uses of _ravel_grid   (data)

Arithmetic (operators, literals, association) and index selections are TRANSLATED, whatever they are; the statement
shape around them is CHECKED.  Anything unexpected at a site aborts with `file:line: reason`.

Exit codes: 0 IoGen.v written (or unchanged); 2 source rejected / unreadable (a stale <out>/IoGen.v is removed);
            1 internal error (Python traceback).  argparse usage errors also exit 2.
"""
import ast
import os
import sys

from apigen import (FLT, INT, COQTY, C, Expr, Reject, Src, U, coq_str, fresh_names, int_const, is_name, is_np,
                    pair_list, same, str_list, write_if_changed)

REL = "_io.py"
ORDERS = {"C": "OrdC", "F": "OrdF"}
INDEXINGS = {"ij": "IdxIJ", "xy": "IdxXY"}


# --------------------------------------------------------------------------------------------- symbolic values
class Scal:
    """a scalar: Coq text and type"""
    def __init__(self, txt, ty):
        self.txt, self.ty = txt, ty


class Str:
    """a string constant (order / indexing)"""
    def __init__(self, value):
        self.value = value


class Arr:
    """a 1-D array: Coq term of type list <ty>"""
    def __init__(self, term, ty):
        self.term, self.ty = term, ty


class ZL:
    """a Python list of n integers: Coq term of type list Z"""
    def __init__(self, term, n):
        self.term, self.n = term, n


class Col:
    """output number j of a call of an inner meshgrid function whose rows are `term`"""
    def __init__(self, term, j, ty, line):
        self.term, self.j, self.ty, self.line = term, j, ty, line


class Rows:
    """a list of rows (list (list <ty>))"""
    def __init__(self, term, ty):
        self.term, self.ty = term, ty


def nat_list(idx):
    return "[" + "; ".join(str(i) for i in idx) + "]%nat"


def signed_int(node):
    v = int_const(node)
    if v is not None:
        return v
    if isinstance(node, ast.UnaryOp) and isinstance(node.op, ast.USub) and int_const(node.operand) is not None:
        return -int_const(node.operand)
    return None


def str_const(node):
    if isinstance(node, ast.Constant) and isinstance(node.value, str):
        return node.value
    return None


def is_name_tuple(node, names):
    return (isinstance(node, ast.Tuple) and len(node.elts) == len(names)
            and all(isinstance(x, ast.Name) and x.id == n for x, n in zip(node.elts, names)))


def base_name(t):
    """the variable a store target ultimately writes into"""
    while isinstance(t, (ast.Subscript, ast.Attribute, ast.Starred)):
        t = t.value
    return t.id if isinstance(t, ast.Name) else None


def store_targets(st):
    """(target node) of every assignment-like statement"""
    if isinstance(st, ast.Assign):
        out = []
        for t in st.targets:
            out += list(t.elts) if isinstance(t, (ast.Tuple, ast.List)) else [t]
        return out
    if isinstance(st, (ast.AugAssign, ast.AnnAssign)):
        return [st.target]
    return []


SIMPLE = (ast.Assign, ast.AugAssign, ast.AnnAssign, ast.Expr, ast.Return, ast.Delete)


class Gen:
    def __init__(self, pkg):
        self.pkg = pkg
        self.s = Src(pkg, REL)
        self.defs = []
        self.data = []
        self.names = []

    def d(self, name, text):
        self.names.append(name)
        self.defs.append(text)

    def dat(self, name, ty, val):
        self.names.append(name)
        self.data.append(f"Definition {name} : {ty} :=\n  {val}.")

    # ---------------------------------------------------------------- lookup and guards
    def func(self, name):
        s = self.s
        found = [n for n in s.tree.body
                 if isinstance(n, (ast.FunctionDef, ast.AsyncFunctionDef, ast.ClassDef)) and n.name == name]
        if len(found) != 1:
            s.err(0, f"expected exactly one top-level definition of {name}, found {len(found)}")
        fn = found[0]
        if not isinstance(fn, ast.FunctionDef):
            s.err(fn, f"{name} is not a plain function")
        if fn.decorator_list:
            s.err(fn, f"{name}: unexpected decorators {[U(x) for x in fn.decorator_list]}")
        for sub in ast.walk(fn):
            if isinstance(sub, (ast.Global, ast.Nonlocal, ast.Yield, ast.YieldFrom, ast.Await, ast.Lambda,
                                ast.NamedExpr, ast.ClassDef, ast.AsyncFunctionDef, ast.Try, ast.With, ast.While)):
                s.err(sub, f"{name}: unsupported construct {type(sub).__name__}")
        # nothing else at module level may bind the name
        for n in s.tree.body:
            if n is fn:
                continue
            if isinstance(n, (ast.Import, ast.ImportFrom)):
                for al in n.names:
                    if (al.asname or al.name) == name:
                        s.err(n, f"{name} is rebound by an import")
            elif not isinstance(n, (ast.FunctionDef, ast.ClassDef)):
                for sub in ast.walk(n):
                    if isinstance(sub, ast.Name) and sub.id == name and isinstance(sub.ctx, (ast.Store, ast.Del)):
                        s.err(n, f"{name} is rebound at module level")
        return fn

    def no_np_rebinding(self):
        s = self.s
        s.need_np()
        for n in ast.walk(s.tree):
            if isinstance(n, ast.Name) and n.id in ("np", "len", "zip", "enumerate", "isinstance", "int", "float") \
                    and isinstance(n.ctx, (ast.Store, ast.Del)):
                s.err(n, f"`{n.id}` is rebound")
            if isinstance(n, ast.arg) and n.arg in ("np", "len", "zip", "enumerate", "isinstance", "int", "float"):
                s.err(n, f"`{n.arg}` is shadowed by a parameter")
            if isinstance(n, (ast.FunctionDef, ast.ClassDef)) and n.name in ("np", "len", "zip", "enumerate"):
                s.err(n, f"`{n.name}` is redefined")

    def only_stores_at(self, fn, tracked, allowed, what):
        """every store into a tracked variable inside fn must be one of the recognised statements"""
        s = self.s
        ok = set()
        for st in allowed:
            for sub in ast.walk(st):
                ok.add(id(sub))
        for sub in ast.walk(fn):
            if id(sub) in ok:
                continue
            if isinstance(sub, ast.stmt):
                for t in store_targets(sub):
                    if base_name(t) in tracked:
                        s.err(sub, f"{what}: unexpected assignment to `{base_name(t)}`")
                if isinstance(sub, ast.Delete):
                    for t in sub.targets:
                        if base_name(t) in tracked:
                            s.err(sub, f"{what}: `{base_name(t)}` is deleted")
                if isinstance(sub, ast.For) and id(sub.target) not in ok:
                    for t in ast.walk(sub.target):
                        if isinstance(t, ast.Name) and t.id in tracked:
                            s.err(sub, f"{what}: `{t.id}` is a loop variable")
                if isinstance(sub, ast.Expr) and isinstance(sub.value, ast.Call) \
                        and isinstance(sub.value.func, ast.Attribute) and base_name(sub.value.func) in tracked:
                    s.err(sub, f"{what}: unexpected method call on `{base_name(sub.value.func)}`")
            if isinstance(sub, ast.comprehension):
                for t in ast.walk(sub.target):
                    if isinstance(t, ast.Name) and t.id in tracked:
                        s.err(t, f"{what}: `{t.id}` is rebound by a comprehension")
            if isinstance(sub, ast.arg) and sub.arg in tracked and sub not in fn.args.args \
                    and sub is not fn.args.vararg:
                s.err(sub, f"{what}: `{sub.arg}` is shadowed by an inner parameter")

    # ---------------------------------------------------------------- grid_to_meshio (structure + typing of the call)
    def grid_site(self):
        s = self.s
        fn = self.func("grid_to_meshio")
        a = fn.args
        if a.args or a.kwonlyargs or a.posonlyargs or a.kwarg or not a.vararg or a.vararg.arg != "args":
            s.err(fn, "grid_to_meshio: parameters changed (expected *args)")
        for cn in ("TraveltimeGrid2D", "TraveltimeGrid3D"):
            s.need_import("_grid", 1, cn)
        body = s.body(fn)
        allowed = []
        # --- what is read off the first argument
        loops = [st for st in body if isinstance(st, ast.For) and same(st.iter, "enumerate(args)")]
        if len(loops) != 1 or not is_name_tuple(loops[0].target, ["i", "arg"]) or loops[0].orelse:
            s.err(fn, "grid_to_meshio: expected exactly one `for i, arg in enumerate(args):`")
        firsts = [st for st in loops[0].body if isinstance(st, ast.If) and same(st.test, "i == 0")]
        if len(firsts) != 1 or firsts[0].orelse:
            s.err(loops[0], "grid_to_meshio: expected exactly one `if i == 0:` block (without else) in the first loop")
        first = []
        for st in firsts[0].body:
            if not (isinstance(st, ast.Assign) and len(st.targets) == 1 and isinstance(st.targets[0], ast.Name)
                    and isinstance(st.value, ast.Attribute) and is_name(st.value.value, "arg")):
                s.err(st, "grid_to_meshio: expected `<name> = arg.<attribute>` in the `if i == 0:` block")
            first.append((st.targets[0].id, U(st.value)))
            allowed.append(st)
        if sorted(n for n, _ in first) != ["gridsize", "ndim", "origin", "shape"]:
            s.err(firsts[0], "grid_to_meshio: the `if i == 0:` block must set ndim, shape, gridsize and origin, once each")
        self.dat("grid_first_arg", "list (string * string)", pair_list(first))
        # --- the two branches
        ifs = [k for k, st in enumerate(body) if isinstance(st, ast.If) and same(st.test, "ndim == 2")]
        if len(ifs) != 1 or not body[ifs[0]].orelse:
            s.err(fn, "grid_to_meshio: expected exactly one `if ndim == 2: ... else: ...` at the top level")
        if ifs[0] < body.index(loops[0]):
            s.err(body[ifs[0]], "grid_to_meshio: the mesh is generated before the first argument is read")
        top = body[ifs[0]]
        sigs = {}
        base = {"ndim", "shape", "gridsize", "origin", "points", "cells", "args", "arg", "i"}
        allowed += [st.target for st in body if isinstance(st, ast.For) and not st.orelse
                    and (st is loops[0] or (is_name(st.iter, "args") and is_name(st.target, "arg")))]
        tracked = set(base)
        for nd, stmts in ((2, top.body), (3, top.orelse)):
            tag = f"{nd}d"
            kinds = {"shape": INT, "gridsize": FLT, "origin": FLT}
            unp, types = [], {}
            k = 0
            while k < len(stmts):
                st = stmts[k]
                if not (isinstance(st, ast.Assign) and len(st.targets) == 1 and isinstance(st.targets[0], ast.Tuple)
                        and isinstance(st.value, ast.Name) and st.value.id in kinds):
                    break
                names = st.targets[0].elts
                if not all(isinstance(x, ast.Name) for x in names) or len(names) != nd:
                    s.err(st, f"grid_to_meshio: expected an unpacking of {st.value.id} into {nd} names")
                if st.value.id in [u for u, _ in unp]:
                    s.err(st, f"grid_to_meshio: {st.value.id} is unpacked twice")
                for x in names:
                    if x.id in types or x.id in base:
                        s.err(st, f"grid_to_meshio: `{x.id}` is bound twice")
                    types[x.id] = kinds[st.value.id]
                unp.append((st.value.id, [x.id for x in names]))
                allowed.append(st)
                k += 1
            if sorted(u for u, _ in unp) != ["gridsize", "origin", "shape"]:
                s.err(stmts[0] if stmts else top,
                      f"grid_to_meshio ({tag}): expected the unpackings of shape, gridsize and origin first")
            self.dat(f"grid_{tag}_unpack", "list (string * list string)",
                     "[" + "; ".join(f"({coq_str(u)}, {str_list(ns)})" for u, ns in unp) + "]")
            # node -> cell adjustment for traveltime grids
            st = stmts[k] if k < len(stmts) else None
            want = f"isinstance(args[0], TraveltimeGrid{nd}D)"
            if not (isinstance(st, ast.If) and same(st.test, want) and not st.orelse):
                s.err(st or top, f"grid_to_meshio ({tag}): expected `if {want}:` (without else) after the unpackings")
            adj = []
            shape_names = dict(unp)["shape"]
            for x in st.body:
                if not (isinstance(x, ast.AugAssign) and isinstance(x.target, ast.Name) and x.target.id in shape_names
                        and isinstance(x.op, (ast.Sub, ast.Add)) and int_const(x.value) is not None):
                    s.err(x, f"grid_to_meshio ({tag}): expected `<shape component> -= <integer>` in the adjustment block")
                adj.append(U(x))
                allowed.append(x)
            self.dat(f"grid_{tag}_node_adjust", "string * list string", f"({coq_str(U(st.test))}, {str_list(adj)})")
            k += 1
            # the call
            st = stmts[k] if k < len(stmts) else None
            gname = f"_generate_mesh_{nd}d"
            if not (isinstance(st, ast.Assign) and len(st.targets) == 1 and is_name_tuple(st.targets[0], ["points", "cells"])
                    and isinstance(st.value, ast.Call) and is_name(st.value.func, gname) and not st.value.keywords
                    and all(isinstance(x, ast.Name) and x.id in types for x in st.value.args)):
                s.err(st or top, f"grid_to_meshio ({tag}): expected `points, cells = {gname}(<unpacked names>)`")
            allowed.append(st)
            cargs = [x.id for x in st.value.args]
            sigs[nd] = (st, cargs, [types[x] for x in cargs])
            self.dat(f"grid_{tag}_call", "string * list string", f"({coq_str(gname)}, {str_list(cargs)})")
            k += 1
            post = []
            for x in stmts[k:]:
                self.points_only(x, {"points", "np", "len"}, f"grid_to_meshio ({tag})")
                post.append(U(x))
                allowed.append(x)
            self.dat(f"grid_{tag}_points_post", "list string", str_list(post))
            tracked |= set(types)
        # --- after the branches: what still touches points, the data arrays, the result
        final = []
        for st in body[ifs[0] + 1:]:
            if any(base_name(t) == "points" for t in store_targets(st)):
                self.points_only(st, {"points", "np", "len"}, "grid_to_meshio")
                final.append(U(st))
                allowed.append(st)
        self.dat("grid_points_final", "list string", str_list(final))
        uses = []
        for st in ast.walk(fn):
            if isinstance(st, SIMPLE):
                calls = [c for c in ast.walk(st) if isinstance(c, ast.Call) and is_name(c.func, "_ravel_grid")]
                for c in calls:
                    if not (len(c.args) == 2 and not c.keywords and is_name(c.args[1], "ndim")
                            and isinstance(c.args[0], ast.Attribute) and c.args[0].attr == "grid"
                            and isinstance(c.args[0].value, ast.Name)):
                        s.err(c, f"grid_to_meshio: expected _ravel_grid(<object>.grid, ndim), found `{U(c)}`")
                if calls:
                    uses.append(U(st))
        for n in ast.walk(fn):
            if isinstance(n, ast.Name) and n.id == "_ravel_grid" and not isinstance(n.ctx, ast.Load):
                s.err(n, "grid_to_meshio: _ravel_grid is rebound")
        self.dat("grid_data_arrays", "list string", str_list(uses))
        last = body[-1]
        if not (isinstance(last, ast.Return) and isinstance(last.value, ast.Call) and same(last.value.func, "meshio.Mesh")
                and len(last.value.args) >= 2 and is_name(last.value.args[0], "points")
                and is_name(last.value.args[1], "cells")):
            s.err(last, "grid_to_meshio: expected `return meshio.Mesh(points, cells, ...)` as the last statement")
        for st in ast.walk(fn):
            if isinstance(st, ast.Return) and st is not last:
                s.err(st, "grid_to_meshio: unexpected early return")
        self.dat("grid_return", "string", coq_str(U(last.value)))
        self.only_stores_at(fn, tracked, allowed, "grid_to_meshio")
        # the generators are called from nowhere else
        for n in ast.walk(s.tree):
            if isinstance(n, ast.Name) and n.id in ("_generate_mesh_2d", "_generate_mesh_3d") \
                    and not any(n is sigs[nd][0].value.func for nd in (2, 3)):
                s.err(n, f"unexpected second use of {n.id}")
        return sigs

    def points_only(self, st, names, what):
        s = self.s
        if not isinstance(st, (ast.Assign, ast.AugAssign)):
            s.err(st, f"{what}: unexpected statement `{U(st)}` (only assignments to points are expected here)")
        for t in store_targets(st):
            if base_name(t) != "points":
                s.err(st, f"{what}: unexpected assignment `{U(st)}` (only points may be modified here)")
        for n in ast.walk(st):
            if isinstance(n, ast.Name) and n.id not in names:
                s.err(st, f"{what}: `{U(st)}` mentions `{n.id}`")

    # ---------------------------------------------------------------- _generate_mesh_{2,3}d
    def mesh(self, nd, sig):
        s = self.s
        tag = f"mesh{nd}d"
        fname = f"_generate_mesh_{nd}d"
        call_st, cargs, ctypes = sig
        fn = self.func(fname)
        a = fn.args
        if a.vararg or a.kwarg or a.kwonlyargs or a.posonlyargs:
            s.err(fn, f"{fname}: unexpected parameter kinds")
        npos = len(a.args) - len(a.defaults)
        if npos != len(cargs):
            s.err(call_st, f"{fname} takes {npos} parameters without default; the call passes {len(cargs)}")
        pnames = [x.arg for x in a.args]
        if len(set(pnames)) != len(pnames):
            s.err(fn, f"{fname}: duplicate parameter names")
        env = {}
        pm = fresh_names(s, fn, pnames[:npos], {"k", "r", "args", "vertex", "A", "T"})
        for p, m, ty in zip(pnames[:npos], pm, ctypes):
            env[p] = Scal(m, ty)
        sparams = []
        for x, dflt in zip(a.args[npos:], a.defaults):
            v = str_const(dflt)
            if v is None:
                s.err(x, f"{fname}: the default of `{x.arg}` must be a string literal")
            env[x.arg] = Str(v)
            sparams.append(f"{x.arg}={U(dflt)}")
        self.dat(f"{tag}_params", "list string", str_list(pnames[:npos] + sparams))
        self.dat(f"grid_{nd}d_binding", "list (string * string)", pair_list(list(zip(pnames[:npos], cargs))))
        pb = " ".join(f"({m} : {COQTY[ty]})" for m, ty in zip(pm, ctypes))
        pa = " ".join(pm)
        strnames = {x.arg for x in a.args[npos:]}
        inner = {}
        assigned = set()
        ret = None

        def define(var, node):
            if var in assigned or var in strnames or var in inner:
                s.err(node, f"{fname}: `{var}` is assigned more than once")
            assigned.add(var)
            return f"{tag}_{var}"

        def scal_env():
            return {n: (v.txt, v.ty) for n, v in env.items() if isinstance(v, Scal)}

        body = s.body(fn)
        for st in body:
            if ret is not None:
                s.err(st, f"{fname}: statement after the return")
            if isinstance(st, ast.FunctionDef):
                if st.name in inner or st.name in env or st.name in assigned:
                    s.err(st, f"{fname}: `{st.name}` is bound twice")
                inner[st.name] = self.inner_function(st, env, tag, fname)
                continue
            if isinstance(st, ast.Return):
                ret = self.mesh_return(st, env, tag, fname)
                continue
            if not (isinstance(st, ast.Assign) and len(st.targets) == 1):
                s.err(st, f"{fname}: unexpected statement `{U(st)}`")
            tgt, val = st.targets[0], st.value
            # ---- <a, b, ...> = meshgrid(...)
            if isinstance(tgt, ast.Tuple):
                if not (all(isinstance(x, ast.Name) for x in tgt.elts) and isinstance(val, ast.Call)
                        and isinstance(val.func, ast.Name) and val.func.id in inner
                        and inner[val.func.id]["kind"] == "meshgrid"):
                    s.err(st, f"{fname}: expected `<names> = <inner meshgrid function>(...)`")
                info = inner[val.func.id]
                if val.keywords:
                    s.err(st, f"{fname}: keyword arguments in the call of {val.func.id} (its defaults are assumed)")
                terms, ty = self.meshgrid_args(val, env, info, fname)
                if len(tgt.elts) != info["nret"]:
                    s.err(st, f"{fname}: {val.func.id} returns {info['nret']} arrays, unpacked into {len(tgt.elts)} names")
                name = define("_".join(x.id for x in tgt.elts), st)
                for x in tgt.elts:
                    if x.id in env or x.id in inner:
                        s.err(st, f"{fname}: `{x.id}` is bound twice")
                self.d(name,
                       f"(* {REL}:{st.lineno}  {fname}:  {C(st)}   (row p = [{'; '.join(x.id + '[p]' for x in tgt.elts)}]) *)\n"
                       f"Definition {name} {pb} : list (list {COQTY[ty]}) :=\n{info['name']} {terms}.")
                for j, x in enumerate(tgt.elts):
                    env[x.id] = Col(f"({name} {pa})", j, ty, st.lineno)
                continue
            if not isinstance(tgt, ast.Name):
                s.err(st, f"{fname}: unexpected assignment target `{U(tgt)}`")
            var = tgt.id
            # ---- <v> = [ints]
            if isinstance(val, ast.List):
                items = []
                for e in val.elts:
                    tr = Expr(s, scal_env())
                    t, ty = tr.ex(e)
                    if ty != INT:
                        s.err(e, f"{fname}: `{U(e)}` in the list `{var}` is not an integer expression")
                    items.append(t)
                name = define(var, st)
                self.d(name, f"(* {REL}:{st.lineno}  {fname}:  {C(st)} *)\n"
                             f"Definition {name} {pb} : list Z :=\n[{'; '.join(items)}].")
                env[var] = ZL(f"({name} {pa})", len(items))
                continue
            # ---- points / cells comprehensions
            if isinstance(val, ast.ListComp):
                name = define(var, st)
                env[var] = self.comprehension(st, val, env, inner, name, pb, pa, fname)
                continue
            # ---- arithmetic, possibly over one np.arange
            name_len, name_node = f"{tag}_{var}_len", f"{tag}_{var}_node"
            cnt, txt, ty = self.arange_expr(val, scal_env(), env, fname)
            if cnt is None:
                if var in assigned or var in strnames:
                    s.err(st, f"{fname}: `{var}` is assigned more than once")
                assigned.add(var)
                env[var] = Scal(txt, ty)
                continue
            name = define(var, st)
            self.d(name_len, f"(* {REL}:{st.lineno}  {fname}:  {C(st)}   (number of nodes) *)\n"
                             f"Definition {name_len} {pb} : Z :=\n{cnt}.")
            self.d(name_node, f"(* {REL}:{st.lineno}  {fname}:  {C(st)}   (node k of the arange) *)\n"
                              f"Definition {name_node} {pb} (k : Z) : {COQTY[ty]} :=\n{txt}.")
            self.d(name, f"Definition {name} {pb} : list {COQTY[ty]} :=\n"
                         f"map (fun k : Z => {name_node} {pa} k) (arange ({name_len} {pa})).")
            env[var] = Arr(f"({name} {pa})", ty)
        if ret is None:
            s.err(fn, f"{fname}: no return statement")
        for n in ast.walk(fn):
            if isinstance(n, ast.Name) and n.id in strnames and not isinstance(n.ctx, ast.Load):
                s.err(n, f"{fname}: `{n.id}` is reassigned")

    def arange_expr(self, val, senv, env, fname, extra_atom=None):
        """translate scalar arithmetic containing at most one np.arange; returns (count text or None, text, type)"""
        s = self.s
        cnt = []

        def atom(e):
            if extra_atom is not None:
                r = extra_atom(e)
                if r is not None:
                    return r
            if isinstance(e, ast.Call):
                if is_np(e.func, "arange"):
                    if cnt:
                        s.err(e, f"{fname}: more than one np.arange in one expression")
                    if e.keywords or any(isinstance(x, ast.Starred) for x in e.args):
                        s.err(e, f"{fname}: unsupported form of np.arange")
                    sub = [Expr(s, senv, extra_atom).ex(x) for x in e.args]
                    if len(sub) == 1:
                        if sub[0][1] != INT:
                            s.err(e, f"{fname}: np.arange of a non-integer count")
                        cnt.append(sub[0][0])
                        return "k", INT
                    if len(sub) == 3:
                        if all(ty == INT for _, ty in sub):
                            s.err(e, f"{fname}: integer np.arange(start, stop, step) is not supported")
                        tr = Expr(s, senv)
                        a0, a1, a2 = (tr.coerce(t, ty, FLT, e) for t, ty in sub)
                        cnt.append(f"(np_arange3_len {a0} {a1} {a2})")
                        return f"(np_arange3_node {a0} {a2} k)", FLT
                    s.err(e, f"{fname}: np.arange with {len(sub)} arguments is not supported")
                if not (isinstance(e.func, ast.Name) and e.func.id in ("int", "float")):
                    s.err(e, f"{fname}: unexpected call `{U(e)}`")
            if isinstance(e, ast.Name) and e.id in env and not isinstance(env[e.id], Scal):
                s.err(e, f"{fname}: `{e.id}` is not a scalar at this point")
            return None

        tr = Expr(s, senv, atom)
        txt, ty = tr.ex(val)
        if ty not in (INT, FLT):
            s.err(val, f"{fname}: `{U(val)}` is not a number")
        return (cnt[0] if cnt else None), txt, ty

    def inner_function(self, f, env, tag, fname):
        s = self.s
        a = f.args
        what = f"{fname}.{f.name}"
        if a.vararg or a.kwarg or a.kwonlyargs or a.posonlyargs or f.decorator_list:
            s.err(f, f"{what}: unexpected parameter kinds / decorators")
        for sub in ast.walk(f):
            if sub is not f and isinstance(sub, ast.FunctionDef):
                s.err(sub, f"{what}: nested function")
        b = s.body(f)
        npos = len(a.args) - len(a.defaults)
        pos = [x.arg for x in a.args[:npos]]
        if len(set(x.arg for x in a.args)) != len(a.args):
            s.err(f, f"{what}: duplicate parameter names")
        name = f"{tag}_{f.name}"
        # ---- kind 1: the corner lists
        if len(b) == 1 and isinstance(b[0], ast.Return) and isinstance(b[0].value, ast.List) and not a.defaults:
            pm = fresh_names(s, f, pos, set())
            penv = {p: (m, INT) for p, m in zip(pos, pm)}
            rows = []
            for row in b[0].value.elts:
                if not isinstance(row, ast.List):
                    s.err(row, f"{what}: expected a list of index lists")
                items = []
                for e in row.elts:
                    t, ty = Expr(s, penv).ex(e)
                    if ty != INT:
                        s.err(e, f"{what}: `{U(e)}` is not an integer expression")
                    items.append(t)
                if len(items) != len(pos):
                    s.err(row, f"{what}: a vertex must have {len(pos)} indices")
                rows.append("[" + "; ".join(items) + "]")
            self.d(name, f"(* {REL}:{b[0].lineno}  {what}:  the vertices of one cell, in order *)\n"
                         f"Definition {name} {' '.join(f'({m} : Z)' for m in pm)} : list (list Z) :=\n"
                         f"[" + ";\n ".join(rows) + "].")
            return {"kind": "vertices", "name": name, "npos": len(pos)}
        # ---- kind 2: np.meshgrid + ravel
        strs = {}
        for x, dflt in zip(a.args[npos:], a.defaults):
            v = str_const(dflt)
            if v is None and isinstance(dflt, ast.Name) and isinstance(env.get(dflt.id), Str):
                v = env[dflt.id].value
            if v is None:
                s.err(x, f"{what}: the default of `{x.arg}` must be a string literal or a string parameter of {fname}")
            strs[x.arg] = v

        def sval(e, dflt=None):
            if e is None:
                return dflt
            v = str_const(e)
            if v is None and isinstance(e, ast.Name) and e.id in strs:
                v = strs[e.id]
            if v is None:
                s.err(e, f"{what}: `{U(e)}` is not a known string")
            return v

        if not (len(b) == 2 and isinstance(b[0], ast.Assign) and len(b[0].targets) == 1
                and isinstance(b[0].targets[0], ast.Tuple) and all(isinstance(x, ast.Name) for x in b[0].targets[0].elts)
                and isinstance(b[0].value, ast.Call) and is_np(b[0].value.func, "meshgrid")
                and isinstance(b[1], ast.Return) and b[1].value is not None):
            s.err(f, f"{what}: expected either `return [[...], ...]` or `<names> = np.meshgrid(...); return <ravels>`")
        call = b[0].value
        outs = [x.id for x in b[0].targets[0].elts]
        if len(set(outs)) != len(outs) or set(outs) & set(x.arg for x in a.args):
            s.err(b[0], f"{what}: the np.meshgrid outputs must have fresh distinct names")
        arg_idx = []
        for x in call.args:
            if not (isinstance(x, ast.Name) and x.id in pos):
                s.err(x, f"{what}: np.meshgrid argument `{U(x)}` is not a positional parameter")
            arg_idx.append(pos.index(x.id))
        if len(outs) != len(arg_idx):
            s.err(b[0], f"{what}: np.meshgrid of {len(arg_idx)} arrays unpacked into {len(outs)} names")
        indexing = "xy"
        for kw in call.keywords:
            if kw.arg != "indexing":
                s.err(call, f"{what}: unexpected np.meshgrid keyword `{kw.arg}`")
            indexing = sval(kw.value)
        if indexing not in INDEXINGS:
            s.err(call, f"{what}: unknown indexing {indexing!r}")
        rv = b[1].value
        comps = list(rv.elts) if isinstance(rv, ast.Tuple) else None
        if comps is None:
            s.err(b[1], f"{what}: expected a tuple of raveled arrays")
        ret_idx, orders = [], set()
        for e in comps:
            if not (isinstance(e, ast.Call) and isinstance(e.func, ast.Attribute) and e.func.attr == "ravel"
                    and isinstance(e.func.value, ast.Name) and e.func.value.id in outs):
                s.err(e, f"{what}: expected `<np.meshgrid output>.ravel(<order>)`, found `{U(e)}`")
            oe = None
            if len(e.args) == 1 and not e.keywords:
                oe = e.args[0]
            elif not e.args and len(e.keywords) == 1 and e.keywords[0].arg == "order":
                oe = e.keywords[0].value
            elif e.args or e.keywords:
                s.err(e, f"{what}: unsupported arguments of ravel")
            orders.add(sval(oe, "C"))
            ret_idx.append(outs.index(e.func.value.id))
        if len(orders) != 1:
            s.err(b[1], f"{what}: the outputs are raveled in different orders {sorted(orders)}")
        order = orders.pop()
        if order not in ORDERS:
            s.err(b[1], f"{what}: unsupported ravel order {order!r}")
        self.d(name,
               f"(* {REL}:{b[0].lineno}  {what}({', '.join(x.arg for x in a.args)}):  {C(b[0])}; {C(b[1])}\n"
               f"   with indexing='{indexing}', order='{order}':  row p of the result = [{'; '.join(C(e) + '[p]' for e in comps)}] *)\n"
               f"Definition {name} (A : Type) (args : list (list A)) : list (list A) :=\n"
               f"map (sel {nat_list(ret_idx)}) (np_meshgrid_rows {INDEXINGS[indexing]} {ORDERS[order]} (sel {nat_list(arg_idx)} args)).")
        self.dat(f"{name}_sig", "list string", str_list([x.arg for x in a.args[:npos]]
                                                         + [f"{x.arg}={strs[x.arg]!r}" for x in a.args[npos:]]))
        return {"kind": "meshgrid", "name": name, "npos": len(pos), "nret": len(ret_idx)}

    def meshgrid_args(self, call, env, info, fname):
        """the positional arguments of a call of an inner meshgrid function, as a Coq list of lists"""
        s = self.s
        if len(call.args) == 1 and isinstance(call.args[0], ast.Starred):
            lc = call.args[0].value
            if not (isinstance(lc, ast.ListComp) and len(lc.generators) == 1 and not lc.generators[0].ifs
                    and not lc.generators[0].is_async and isinstance(lc.generators[0].target, ast.Name)
                    and isinstance(lc.generators[0].iter, ast.Name)
                    and isinstance(env.get(lc.generators[0].iter.id), ZL)):
                s.err(call, f"{fname}: expected `*[np.arange(n) for n in <list of integers>]`")
            v = lc.generators[0].target.id
            zl = env[lc.generators[0].iter.id]
            if zl.n != info["npos"]:
                s.err(call, f"{fname}: {zl.n} arrays are passed where {info['npos']} are expected")
            vm = fresh_names(s, lc, [v], {x.txt for x in env.values() if isinstance(x, Scal)} | {"k", "r", "args"})[0]
            cnt, txt, ty = self.arange_expr(lc.elt, {v: (vm, INT)}, {}, fname)
            if cnt is None:
                s.err(lc.elt, f"{fname}: the elements must be np.arange(...) arrays")
            return f"(map (fun {vm} : Z => map (fun k : Z => {txt}) (arange {cnt})) {zl.term})", ty
        terms, tys = [], set()
        for x in call.args:
            if not (isinstance(x, ast.Name) and isinstance(env.get(x.id), Arr)):
                s.err(x, f"{fname}: argument `{U(x)}` is not a known 1-D array")
            terms.append(env[x.id].term)
            tys.add(env[x.id].ty)
        if len(terms) != info["npos"]:
            s.err(call, f"{fname}: {len(terms)} arrays are passed where {info['npos']} are expected")
        if len(tys) != 1:
            s.err(call, f"{fname}: the arrays have different element types")
        return "[" + "; ".join(terms) + "]", tys.pop()

    def comprehension(self, st, lc, env, inner, name, pb, pa, fname):
        s = self.s
        if len(lc.generators) != 1:
            s.err(st, f"{fname}: expected one `for` in the comprehension")
        g = lc.generators[0]
        if g.ifs or g.is_async or not (isinstance(g.iter, ast.Call) and is_name(g.iter.func, "zip") and not g.iter.keywords
                                       and isinstance(g.target, ast.Tuple)
                                       and all(isinstance(t, ast.Name) for t in g.target.elts)
                                       and len(g.target.elts) == len(g.iter.args)):
            s.err(st, f"{fname}: expected `for <names> in zip(<raveled meshgrid outputs>)`")
        cols = []
        for x in g.iter.args:
            if not (isinstance(x, ast.Name) and isinstance(env.get(x.id), Col)):
                s.err(x, f"{fname}: `{U(x)}` is not an output of an inner meshgrid call")
            cols.append(env[x.id])
        if len({c.term for c in cols}) != 1:
            s.err(st, f"{fname}: zip combines outputs of different meshgrid calls")
        rows, ty = cols[0].term, cols[0].ty
        zsel = nat_list([c.j for c in cols])
        loopv = [t.id for t in g.target.elts]
        if len(set(loopv)) != len(loopv):
            s.err(st, f"{fname}: duplicate loop names")
        elt = lc.elt
        # ---- points: [[x, y] for x, y in zip(X, Y)]
        if isinstance(elt, ast.List):
            esel = []
            for e in elt.elts:
                if not (isinstance(e, ast.Name) and e.id in loopv):
                    s.err(e, f"{fname}: `{U(e)}` is not one of the loop names {loopv}")
                esel.append(loopv.index(e.id))
            self.d(name,
                   f"(* {REL}:{st.lineno}  {fname}:  {C(st)}\n"
                   f"   inner selection: the columns zip(...) takes; outer selection: the order of the element list *)\n"
                   f"Definition {name} {pb} : list (list {COQTY[ty]}) :=\n"
                   f"map (sel {nat_list(esel)}) (map (sel {zsel}) {rows}).")
            return Rows(f"({name} {pa})", ty)
        # ---- cells: [[np.ravel_multi_index(vertex, shape, order=..) for vertex in mesh_vertices(i, j)] for i, j in zip(I, J)]
        if not (isinstance(elt, ast.ListComp) and len(elt.generators) == 1):
            s.err(elt, f"{fname}: unexpected element `{U(elt)}` of the comprehension")
        if ty != INT:
            s.err(st, f"{fname}: cell indices are computed from non-integer arrays")
        g2 = elt.generators[0]
        if g2.ifs or g2.is_async or not isinstance(g2.target, ast.Name) or not (
                isinstance(g2.iter, ast.Call) and isinstance(g2.iter.func, ast.Name) and g2.iter.func.id in inner
                and inner[g2.iter.func.id]["kind"] == "vertices" and not g2.iter.keywords):
            s.err(elt, f"{fname}: expected `for <name> in <inner vertices function>(...)`")
        vinfo = inner[g2.iter.func.id]
        if len(g2.iter.args) != vinfo["npos"]:
            s.err(g2.iter, f"{fname}: wrong number of arguments for {g2.iter.func.id}")
        taken = {x.txt for x in env.values() if isinstance(x, Scal)}
        lm = fresh_names(s, st, loopv, taken)
        vm = fresh_names(s, st, [g2.target.id], taken | set(lm))[0]
        lenv = {p: (m, INT) for p, m in zip(loopv, lm)}
        vargs = []
        for e in g2.iter.args:
            if isinstance(e, ast.Starred):
                s.err(e, f"{fname}: starred argument")
            t, ty2 = Expr(s, lenv).ex(e)
            if ty2 != INT:
                s.err(e, f"{fname}: `{U(e)}` is not an integer expression")
            vargs.append(t)
        c = elt.elt
        if not (isinstance(c, ast.Call) and is_np(c.func, "ravel_multi_index") and len(c.args) == 2
                and is_name(c.args[0], g2.target.id) and isinstance(c.args[1], ast.Name)
                and isinstance(env.get(c.args[1].id), ZL)):
            s.err(c, f"{fname}: expected np.ravel_multi_index({g2.target.id}, <list of integers>, order=...)")
        order = "C"
        for kw in c.keywords:
            if kw.arg != "order":
                s.err(c, f"{fname}: unexpected np.ravel_multi_index keyword `{kw.arg}`")
            v = str_const(kw.value)
            if v is None and isinstance(kw.value, ast.Name) and isinstance(env.get(kw.value.id), Str):
                v = env[kw.value.id].value
            if v not in ORDERS:
                s.err(kw.value, f"{fname}: `{U(kw.value)}` is not a known order")
            order = v
        shape = env[c.args[1].id]
        if shape.n != vinfo["npos"]:
            s.err(c, f"{fname}: {vinfo['npos']} indices are raveled over a shape of {shape.n} extents")
        binders = " ".join(f"({m} : Z)" for m in lm)
        self.d(f"{name}_elt",
               f"(* {REL}:{elt.lineno}  {fname}:  {C(elt)}   (order='{order}') *)\n"
               f"Definition {name}_elt {pb} {binders} : list Z :=\n"
               f"map (fun {vm} : list Z => np_ravel_multi_index {vm} {shape.term} {ORDERS[order]})"
               f" ({vinfo['name']} {' '.join(vargs)}).")
        picks = " ".join(f"(nth {i}%nat r 0)" for i in range(len(lm)))
        self.d(name,
               f"(* {REL}:{st.lineno}  {fname}:  [... for {C(g.target)} in {C(g.iter)}] *)\n"
               f"Definition {name} {pb} : list (list Z) :=\n"
               f"map (fun r : list Z => {name}_elt {pa} {picks}) (map (sel {zsel}) {rows}).")
        return Rows(f"({name} {pa})", INT)

    def mesh_return(self, st, env, tag, fname):
        s = self.s
        v = st.value
        ok = isinstance(v, ast.Tuple) and len(v.elts) == 2
        if ok:
            p, c = v.elts
            ok = (isinstance(p, ast.Call) and is_np(p.func, "array") and len(p.args) == 1 and isinstance(p.args[0], ast.Name)
                  and [(k.arg, U(k.value)) for k in p.keywords] == [("dtype", "float")]
                  and isinstance(c, ast.List) and len(c.elts) == 1 and isinstance(c.elts[0], ast.Tuple)
                  and len(c.elts[0].elts) == 2 and str_const(c.elts[0].elts[0]) is not None)
        if ok:
            cc = c.elts[0].elts[1]
            ok = (isinstance(cc, ast.Call) and is_np(cc.func, "array") and len(cc.args) == 1 and not cc.keywords
                  and isinstance(cc.args[0], ast.Name))
        if not ok:
            s.err(st, f"{fname}: expected `return np.array(<points>, dtype=float), [(<cell type>, np.array(<cells>))]`")
        pv, cv = env.get(p.args[0].id), env.get(cc.args[0].id)
        if not (isinstance(pv, Rows) and pv.ty == FLT):
            s.err(st, f"{fname}: `{p.args[0].id}` is not a list of coordinate rows")
        if not (isinstance(cv, Rows) and cv.ty == INT):
            s.err(st, f"{fname}: `{cc.args[0].id}` is not a list of index rows")
        self.dat(f"{tag}_return", "list string", str_list([U(p), U(c)]))
        self.dat(f"{tag}_celltype", "string", coq_str(str_const(c.elts[0].elts[0])))
        return True

    # ---------------------------------------------------------------- _ravel_grid
    def ravel_site(self):
        s = self.s
        fn = self.func("_ravel_grid")
        a = fn.args
        if [x.arg for x in a.args] != ["grid", "ndim"] or a.defaults or a.vararg or a.kwarg or a.kwonlyargs or a.posonlyargs:
            s.err(fn, "_ravel_grid: parameters changed (expected grid, ndim)")
        b = s.body(fn)
        if len(b) != 1 or not isinstance(b[0], ast.Return) or b[0].value is None:
            s.err(fn, "_ravel_grid: expected a single `return <expression>`")
        for nd in (2, 3):
            e = b[0].value
            while isinstance(e, ast.IfExp):
                t = e.test
                if not (isinstance(t, ast.Compare) and len(t.ops) == 1 and isinstance(t.ops[0], (ast.Eq, ast.NotEq))
                        and is_name(t.left, "ndim") and int_const(t.comparators[0]) is not None):
                    s.err(t, f"_ravel_grid: unsupported condition `{U(t)}` (expected ndim == <integer>)")
                hit = (nd == int_const(t.comparators[0])) == isinstance(t.ops[0], ast.Eq)
                e = e.body if hit else e.orelse
            if not (isinstance(e, ast.Call) and isinstance(e.func, ast.Attribute) and e.func.attr == "ravel"):
                s.err(e, f"_ravel_grid: expected `<array>.ravel()`, found `{U(e)}`")
            order = "C"
            if len(e.args) == 1 and not e.keywords:
                order = str_const(e.args[0])
            elif not e.args and len(e.keywords) == 1 and e.keywords[0].arg == "order":
                order = str_const(e.keywords[0].value)
            elif e.args or e.keywords:
                s.err(e, "_ravel_grid: unsupported arguments of ravel")
            if order not in ORDERS:
                s.err(e, f"_ravel_grid: unsupported ravel order `{U(e)}`")
            arr = e.func.value
            axes = None
            if isinstance(arr, ast.Call) and is_np(arr.func, "transpose") and arr.args and is_name(arr.args[0], "grid"):
                ax = None
                if len(arr.args) == 2 and not arr.keywords:
                    ax = arr.args[1]
                elif len(arr.args) == 1 and len(arr.keywords) == 1 and arr.keywords[0].arg == "axes":
                    ax = arr.keywords[0].value
                elif len(arr.args) == 1 and not arr.keywords:
                    axes = list(range(nd))[::-1]
                if axes is None:
                    if not (isinstance(ax, (ast.List, ast.Tuple)) and all(int_const(x) is not None for x in ax.elts)):
                        s.err(arr, f"_ravel_grid: unsupported form of np.transpose `{U(arr)}`")
                    axes = [int_const(x) for x in ax.elts]
                if sorted(axes) != list(range(nd)):
                    s.err(arr, f"_ravel_grid: axes {axes} are not a permutation of the {nd} axes")
            elif not is_name(arr, "grid"):
                s.err(arr, f"_ravel_grid: unexpected array `{U(arr)}` (expected grid or np.transpose(grid, axes))")
            if axes is None:
                body = f"np_ravel_multi_index idx shape {ORDERS[order]}"
            else:
                body = f"np_ravel_multi_index (sel {nat_list(axes)} idx) (sel {nat_list(axes)} shape) {ORDERS[order]}"
            self.d(f"ravel_grid_{nd}d",
                   f"(* {REL}:{e.lineno}  _ravel_grid (ndim = {nd}):  {C(e)}\n"
                   f"   position, in the result, of grid[idx] for a grid of extents `shape` *)\n"
                   f"Definition ravel_grid_{nd}d (shape idx : list Z) : Z :=\n{body}.")

    # ---------------------------------------------------------------- ray_to_meshio
    def ray_site(self):
        s = self.s
        fn = self.func("ray_to_meshio")
        what = "ray_to_meshio"
        a = fn.args
        if a.args or a.kwonlyargs or a.posonlyargs or a.kwarg or not a.vararg or a.vararg.arg != "args":
            s.err(fn, f"{what}: parameters changed (expected *args)")
        body = s.body(fn)
        loops = [k for k, st in enumerate(body) if isinstance(st, ast.For) and is_name(st.iter, "args")]
        if len(loops) != 1 or not isinstance(body[loops[0]].target, ast.Name) or body[loops[0]].orelse:
            s.err(fn, f"{what}: expected exactly one `for <ray> in args:` at the top level")
        loop = body[loops[0]]
        ray = loop.target.id
        allowed = []
        init = {}
        for st in body[:loops[0]]:
            for nm in ("points", "cells"):
                if any(base_name(t) == nm for t in store_targets(st)):
                    if not (isinstance(st, ast.Assign) and len(st.targets) == 1 and is_name(st.targets[0], nm)
                            and isinstance(st.value, ast.List) and not st.value.elts and nm not in init):
                        s.err(st, f"{what}: expected a single `{nm} = []` before the loop")
                    init[nm] = st
                    allowed.append(st)
        if set(init) != {"points", "cells"}:
            s.err(loop, f"{what}: points and cells must both start as empty lists")
        tracked = {"points", "cells", "args", ray}
        state = {"off": "off"}
        arrays = {}
        seg = None
        npts = 0

        def len_atom(e):
            if isinstance(e, ast.Call) and is_name(e.func, "len"):
                if len(e.args) == 1 and not e.keywords:
                    if is_name(e.args[0], ray):
                        return "n", INT
                    if is_name(e.args[0], "points"):
                        return state["off"], INT
                s.err(e, f"{what}: unexpected `{U(e)}` (only len({ray}) and len(points) are expected)")
            return None

        def length_of(e):
            """number of rows of an array expression built from the ray and the points gathered so far"""
            if is_name(e, ray):
                return "n"
            if is_name(e, "points"):
                return state["off"]
            if isinstance(e, ast.Call) and not e.keywords and len(e.args) == 1:
                if is_np(e.func, "array") or is_np(e.func, "asarray"):
                    return length_of(e.args[0])
                if (is_np(e.func, "vstack") or is_np(e.func, "concatenate") or is_np(e.func, "row_stack")) \
                        and isinstance(e.args[0], (ast.Tuple, ast.List)) and e.args[0].elts:
                    parts = [length_of(x) for x in e.args[0].elts]
                    t = parts[0]
                    for p in parts[1:]:
                        t = f"({t} + {p})"
                    return t
            if isinstance(e, ast.IfExp):
                t = e.test
                if not (isinstance(t, ast.Compare) and len(t.ops) == 1 and isinstance(t.ops[0], ast.Eq)):
                    s.err(t, f"{what}: unsupported condition `{U(t)}`")
                l, lty = Expr(s, {}, len_atom).ex(t.left)
                r, rty = Expr(s, {}, len_atom).ex(t.comparators[0])
                if lty != INT or rty != INT:
                    s.err(t, f"{what}: the condition must compare integers")
                return f"(if ({l} =? {r}) then {length_of(e.body)} else {length_of(e.orelse)})"
            s.err(e, f"{what}: cannot tell the number of rows of `{U(e)}`")

        def slice_of(e):
            if not (isinstance(e, ast.Subscript) and isinstance(e.value, ast.Name) and e.value.id in arrays
                    and isinstance(e.slice, ast.Slice) and e.slice.step is None):
                s.err(e, f"{what}: expected a slice of `{'/'.join(arrays) or 'the index array'}`, found `{U(e)}`")
            lo, hi = e.slice.lower, e.slice.upper
            term = arrays[e.value.id]
            if lo is None and hi is not None and signed_int(hi) is not None and signed_int(hi) < 0:
                return f"(slice_upto_neg {-signed_int(hi)} {term})"
            if hi is None and lo is not None and signed_int(lo) is not None and signed_int(lo) >= 0:
                return f"(slice_from {signed_int(lo)} {term})"
            s.err(e, f"{what}: unsupported slice `{U(e)}` (only [c:] and [:-c] are supported)")

        for st in loop.body:
            allowed.append(st)
            # cells.append((<type>, np.column_stack((a[..], a[..]))))
            if isinstance(st, ast.Expr):
                c = st.value
                ok = (isinstance(c, ast.Call) and same(c.func, "cells.append") and len(c.args) == 1 and not c.keywords
                      and isinstance(c.args[0], ast.Tuple) and len(c.args[0].elts) == 2
                      and str_const(c.args[0].elts[0]) is not None)
                if ok:
                    cs = c.args[0].elts[1]
                    ok = (isinstance(cs, ast.Call) and is_np(cs.func, "column_stack") and len(cs.args) == 1
                          and not cs.keywords and isinstance(cs.args[0], (ast.Tuple, ast.List)) and len(cs.args[0].elts) == 2)
                if not ok or seg is not None:
                    s.err(st, f"{what}: expected exactly one `cells.append((<type>, np.column_stack((<slice>, <slice>))))`")
                l, r = (slice_of(x) for x in cs.args[0].elts)
                seg = st
                self.d("ray_segments",
                       f"(* {REL}:{st.lineno}  {what}:  {C(st)}   (off = len(points) on entry, n = len({ray})) *)\n"
                       f"Definition ray_segments (off n : Z) : list (Z * Z) :=\ncolumn_stack2 {l} {r}.")
                self.dat("ray_celltype", "string", coq_str(str_const(c.args[0].elts[0])))
                continue
            if not (isinstance(st, ast.Assign) and len(st.targets) == 1 and isinstance(st.targets[0], ast.Name)):
                s.err(st, f"{what}: unexpected statement `{U(st)}` in the loop over the rays")
            var = st.targets[0].id
            if var == "points":
                state["off"] = length_of(st.value)
                npts += 1
                self.dat(f"ray_points_update{'' if npts == 1 else npts}", "string", coq_str(U(st)))
                continue
            if var in tracked or var in arrays:
                s.err(st, f"{what}: unexpected assignment to `{var}`")
            cnt, txt, ty = self.arange_expr(st.value, {}, {}, what, len_atom)
            if cnt is None or ty != INT:
                s.err(st, f"{what}: expected an integer index array built from np.arange(len({ray}))")
            nm = f"ray_{var}"
            self.d(f"{nm}_len", f"(* {REL}:{st.lineno}  {what}:  {C(st)}   (number of entries) *)\n"
                                f"Definition {nm}_len (off n : Z) : Z :=\n{cnt}.")
            self.d(f"{nm}_node", f"(* {REL}:{st.lineno}  {what}:  {C(st)}   (entry k) *)\n"
                                 f"Definition {nm}_node (off n : Z) (k : Z) : Z :=\n{txt}.")
            self.d(nm, f"Definition {nm} (off n : Z) : list Z :=\n"
                       f"map (fun k : Z => {nm}_node off n k) (arange ({nm}_len off n)).")
            arrays[var] = f"({nm} off n)"
            tracked.add(var)
        if seg is None:
            s.err(loop, f"{what}: the loop does not append any cell block")
        self.d("ray_next_off",
               f"(* {REL}:{loop.lineno}  {what}:  len(points) after one pass of the loop *)\n"
               f"Definition ray_next_off (off n : Z) : Z :=\n{state['off']}.")
        self.d("rays_cells",
               f"(* {REL}:{loop.lineno}  {what}:  for {ray} in args: ...   (lens = the lengths of the rays) *)\n"
               f"Fixpoint rays_cells (off : Z) (lens : list Z) : list (list (Z * Z)) :=\n"
               f"match lens with [] => [] | n :: t => ray_segments off n :: rays_cells (ray_next_off off n) t end.")
        self.d("ray_to_meshio_cells",
               f"(* {REL}:{init['points'].lineno}  {what}:  {C(init['points'])}   (no point before the first ray) *)\n"
               f"Definition ray_to_meshio_cells (lens : list Z) : list (list (Z * Z)) :=\n"
               f"rays_cells {len(init['points'].value.elts)} lens.")
        post = []
        for st in body[loops[0] + 1:]:
            if any(base_name(t) == "points" for t in store_targets(st)):
                self.points_only(st, {"points", "np", "len", "ndim"}, what)
                post.append(U(st))
                allowed.append(st)
        self.dat("ray_points_post", "list string", str_list(post))
        last = body[-1]
        if not (isinstance(last, ast.Return) and last.value is not None and same(last.value, "meshio.Mesh(points, cells)")):
            s.err(last, f"{what}: expected `return meshio.Mesh(points, cells)` as the last statement")
        for st in ast.walk(fn):
            if isinstance(st, ast.Return) and st is not last:
                s.err(st, f"{what}: unexpected early return")
            if isinstance(st, (ast.Break, ast.Continue)):
                s.err(st, f"{what}: unexpected {type(st).__name__.lower()}")
        self.dat("ray_return", "string", coq_str(U(last.value)))
        self.only_stores_at(fn, tracked, allowed + [loop.target], what)

    # ---------------------------------------------------------------- all
    def run(self):
        self.no_np_rebinding()
        sigs = self.grid_site()
        for nd in (2, 3):
            self.mesh(nd, sigs[nd])
        self.ravel_site()
        self.ray_site()
        if len(set(self.names)) != len(self.names):
            dup = sorted(n for n in set(self.names) if self.names.count(n) > 1)
            raise Reject(REL, 0, f"two generated definitions would share the name {dup[0]}")
        return PRELUDE + "\n\n".join(self.defs) + "\nEnd Gen.\n\n" + DATA_HEADER + "\n".join(self.data) + "\n"


PRELUDE = """(* GENERATED by iogen from _io.py -- do not edit *)
From Coq Require Import String ZArith List Bool.
From FT.lib Require Import Num.
Import ListNotations.
Open Scope Z_scope.
Open Scope bool_scope.
Set Implicit Arguments.

(* ---- fixed prelude: the meaning given to the NumPy / Python idioms of the mesh-export layer ---- *)
Inductive order := OrdC | OrdF.
Inductive indexing := IdxIJ | IdxXY.
(* np.arange(n) *)
Definition arange (n : Z) : list Z := map Z.of_nat (seq 0 (Z.to_nat n)).
(* [l[i] for i in idx] *)
Definition sel (A : Type) (idx : list nat) (l : list A) : list A :=
  flat_map (fun i => match nth_error l i with Some x => [x] | None => [] end) idx.
(* all index tuples over the given axes: C order = last axis fastest, F order = first axis fastest *)
Fixpoint cart_C (A : Type) (axes : list (list A)) : list (list A) :=
  match axes with [] => [[]] | ax :: rest => flat_map (fun a => map (cons a) (cart_C rest)) ax end.
Definition cart (A : Type) (o : order) (axes : list (list A)) : list (list A) :=
  match o with OrdC => cart_C axes | OrdF => map (@rev A) (cart_C (rev axes)) end.
Definition swap01 (A : Type) (l : list A) : list A := match l with a :: b :: t => b :: a :: t | _ => l end.
(* outs = np.meshgrid( *axes, indexing=ix); row p = [out.ravel(o)[p] for out in outs] *)
Definition np_meshgrid_rows (A : Type) (ix : indexing) (o : order) (axes : list (list A)) : list (list A) :=
  match ix with IdxIJ => cart o axes | IdxXY => map (@swap01 A) (cart o (swap01 axes)) end.
(* np.ravel_multi_index(idx, shape, order=o) *)
Fixpoint rmi_C (acc : Z) (idx shape : list Z) : Z :=
  match idx, shape with i :: idx', n :: shape' => rmi_C (acc * n + i) idx' shape' | _, _ => acc end.
Definition np_ravel_multi_index (idx shape : list Z) (o : order) : Z :=
  match o with OrdC => rmi_C 0 idx shape | OrdF => rmi_C 0 (rev idx) (rev shape) end.
(* l[a:] (a >= 0), l[:-b] (b > 0), np.column_stack((a, b)) of two 1-D arrays *)
Definition slice_from (A : Type) (a : Z) (l : list A) : list A := skipn (Z.to_nat a) l.
Definition slice_upto_neg (A : Type) (b : Z) (l : list A) : list A := firstn (length l - Z.to_nat b) l.
Definition column_stack2 (A : Type) (a b : list A) : list (A * A) := combine a b.

Section Gen.
Context {T : Type} `{Num T}.
(* np.arange(start, stop, step) over floats: ceil((stop - start) / step) entries; entry 0 is start, entry 1 is
   start + step, entry k is start + k * ((start + step) - start) *)
Definition np_ceil (q : T) : Z := let t := ntrunc q in if nltb (nofZ t) q then t + 1 else t.
Definition np_arange3_len (start stop step : T) : Z := np_ceil (ndiv (nsub stop start) step).
Definition np_arange3_node (start step : T) (k : Z) : T :=
  if k =? 1 then nadd start step else nadd start (nmul (nofZ k) (nsub (nadd start step) start)).

"""

DATA_HEADER = """(* ---- structural facts of the same sites, as data ---- *)
Open Scope string_scope.
"""


def main(argv):
    import argparse
    ap = argparse.ArgumentParser(description=__doc__.split("\n")[0])
    ap.add_argument("--pkg", default="/repo/fteikpy")
    ap.add_argument("--out", required=True)
    ap.add_argument("--list", action="store_true", help="print the names of the generated definitions")
    a = ap.parse_args(argv)
    target = os.path.join(a.out, "IoGen.v")
    try:
        g = Gen(a.pkg)
        text = g.run()
    except Reject as ex:
        try:
            os.remove(target)
        except OSError:
            pass
        print(f"iogen: REJECTED {ex}", file=sys.stderr)
        return 2
    os.makedirs(a.out, exist_ok=True)
    changed = write_if_changed(target, text)
    print("IoGen ok" + (" (changed)" if changed else " (unchanged)"))
    if a.list:
        for n in g.names:
            print(" ", n)
    return 0


if __name__ == "__main__":
    sys.exit(main(sys.argv[1:]))
