"""Types of the Python/Numba subset and Numba signature-string parsing (fail-closed)."""
import re


class TrError(Exception):
    """Raised for anything outside the supported subset (translation is fail-closed)."""


class Ty:
    pass


class Scalar(Ty):
    def __init__(self, name):
        self.name = name

    def __repr__(self):
        return self.name

    def __eq__(self, o):
        return isinstance(o, Scalar) and o.name == self.name

    def __hash__(self):
        return hash(self.name)


INT = Scalar("int")
FLT = Scalar("flt")
BOOL = Scalar("bool")


class Arr(Ty):
    def __init__(self, elt, nd):
        self.elt, self.nd = elt, nd

    def __repr__(self):
        return f"{self.elt}[{self.nd}]"

    def __eq__(self, o):
        return isinstance(o, Arr) and o.elt == self.elt and o.nd == self.nd

    def __hash__(self):
        return hash(("arr", self.elt, self.nd))


class Tup(Ty):
    def __init__(self, items):
        self.items = list(items)

    def __repr__(self):
        return "(" + ",".join(map(repr, self.items)) + ")"

    def __eq__(self, o):
        return isinstance(o, Tup) and o.items == self.items

    def __hash__(self):
        return hash(("tup", tuple(self.items)))


class ListOf(Ty):
    """Result of a prange loop: one entry per iteration, in iteration order."""

    def __init__(self, item):
        self.item = item

    def __repr__(self):
        return f"list<{self.item}>"

    def __eq__(self, o):
        return isinstance(o, ListOf) and o.item == self.item

    def __hash__(self):
        return hash(("list", self.item))


VOID = Tup([])


def coq_ty(t):
    if t == INT:
        return "Z"
    if t == FLT:
        return "T"
    if t == BOOL:
        return "bool"
    if isinstance(t, Arr):
        return f"(arr {coq_ty(t.elt)})"
    if isinstance(t, Tup):
        if not t.items:
            return "unit"
        return "(" + " * ".join(coq_ty(x) for x in t.items) + ")"
    if isinstance(t, ListOf):
        return f"(list {coq_ty(t.item)})"
    raise TrError(f"no Coq type for {t!r}")


def coq_default(t):
    if t == INT:
        return "0"
    if t == FLT:
        return "(nofZ 0)"
    if t == BOOL:
        return "false"
    if isinstance(t, Arr):
        return "(mkarr [0] [])"
    if isinstance(t, Tup):
        if not t.items:
            return "tt"
        return "(" + ", ".join(coq_default(x) for x in t.items) + ")"
    if isinstance(t, ListOf):
        return "[]"
    raise TrError(f"no default for {t!r}")


def _split_top(s):
    out, depth, cur = [], 0, ""
    for ch in s:
        if ch in "([":
            depth += 1
        elif ch in ")]":
            depth -= 1
        if ch == "," and depth == 0:
            out.append(cur.strip())
            cur = ""
        else:
            cur += ch
    if cur.strip():
        out.append(cur.strip())
    return out


def parse_one(s):
    s = s.strip()
    if s == "i4":
        return INT
    if s == "f8":
        return FLT
    if s == "b1":
        return BOOL
    m = re.fullmatch(r"(i4|f8|b1)\[([:, ]+)\]", s)
    if m:
        nd = m.group(2).count(":")
        return Arr(parse_one(m.group(1)), nd)
    m = re.fullmatch(r"UniTuple\((.+),\s*(\d+)\)", s)
    if m:
        return Tup([parse_one(m.group(1))] * int(m.group(2)))
    m = re.fullmatch(r"Tuple\(\((.+)\)\)", s)
    if m:
        return Tup([parse_one(x) for x in _split_top(m.group(1))])
    if s == "void":
        return VOID
    raise TrError(f"unsupported Numba type {s!r}")


def parse_sig(sig):
    """'ret(args)' -> (ret, [args]); the argument list is the last top-level (...) group."""
    sig = sig.strip()
    if not sig.endswith(")"):
        raise TrError(f"bad signature {sig!r}")
    depth = 0
    for k in range(len(sig) - 1, -1, -1):
        if sig[k] == ")":
            depth += 1
        elif sig[k] == "(":
            depth -= 1
            if depth == 0:
                break
    ret, args = sig[:k], sig[k + 1 : -1]
    return parse_one(ret), [parse_one(a) for a in _split_top(args)]
