#!/usr/bin/env python3
"""Effect summary of the API layer (fteikpy/_base.py, _grid.py, _solver.py, _io.py, _helpers.py), emitted as Coq data.

For every function / method the scan records, syntactically and conservatively,
  * the attributes of `self` it assigns (`self.x = ..`, `self.x op= ..`, `self.x[..] = ..`, `del self.x`),
  * the parameters it may update in place: a subscript store, an augmented assignment or a call of a known mutating
    method (`sort`, `fill`, `resize`, `put`, `itemset`, `setfield`, `partition`, `byteswap(True)`) or of a function with an
    `out=` keyword, whose target is a parameter or a local name that may alias one (bound from the parameter itself,
    `np.asarray/np.asanyarray/np.ravel/np.reshape/np.squeeze/np.atleast_*` of it, a slice/index/attribute of it, or a
    conditional expression with such a branch),
  * module-level names it rebinds (`global`),
  * memoising decorators (`cached_property`, `lru_cache`, `cache`, ...), recorded as the pseudo attribute `<memo:name>`.
The result is `gen/Effects.v`: `effects : list (string * list string * list string)`; `props/C17.v` states what it must be."""
import ast
import os
import sys

FILES = ["_base.py", "_grid.py", "_solver.py", "_io.py", "_helpers.py"]
ALIASING_CALLS = {"asarray", "asanyarray", "ravel", "reshape", "squeeze", "atleast_1d", "atleast_2d", "atleast_3d", "transpose"}
MEMO_DECORATORS = {"cached_property", "lru_cache", "cache", "cachedmethod", "cached", "memoize"}
MUTATING_METHODS = {"sort", "fill", "resize", "put", "itemset", "setfield", "partition", "setflags"}


def may_alias(e, aliases):
    """names of parameters that expression e may alias"""
    if isinstance(e, ast.Name):
        return set(aliases.get(e.id, set()))
    if isinstance(e, (ast.Subscript, ast.Attribute)):
        return may_alias(e.value, aliases)
    if isinstance(e, ast.IfExp):
        return may_alias(e.body, aliases) | may_alias(e.orelse, aliases)
    if isinstance(e, ast.Call):
        f = e.func
        name = f.attr if isinstance(f, ast.Attribute) else (f.id if isinstance(f, ast.Name) else None)
        if name in ALIASING_CALLS:
            out = set()
            for a in e.args:
                out |= may_alias(a, aliases)
            if isinstance(f, ast.Attribute):
                out |= may_alias(f.value, aliases)
            return out
    return set()


def scan_function(fn):
    params = [a.arg for a in fn.args.args] + ([fn.args.vararg.arg] if fn.args.vararg else [])
    aliases = {p: {p} for p in params if p != "self"}
    self_attrs, mutated, globs = set(), set(), set()

    def base_name(t):
        while isinstance(t, (ast.Subscript, ast.Attribute)):
            if isinstance(t, ast.Attribute) and isinstance(t.value, ast.Name) and t.value.id == "self":
                return ("self", t.attr)
            t = t.value
        if isinstance(t, ast.Name):
            return ("name", t.id)
        return (None, None)

    for node in ast.walk(fn):
        if isinstance(node, ast.Global):
            globs |= set(node.names)
    # forward pass in source order for aliases
    for node in ast.walk(fn):
        if isinstance(node, ast.Assign) and len(node.targets) == 1 and isinstance(node.targets[0], ast.Name):
            al = may_alias(node.value, aliases)
            if al:
                aliases[node.targets[0].id] = aliases.get(node.targets[0].id, set()) | al
    for node in ast.walk(fn):
        targets = []
        if isinstance(node, ast.Assign):
            targets = [(t, False) for t in node.targets]
        elif isinstance(node, ast.AugAssign):
            targets = [(node.target, True)]
        elif isinstance(node, ast.Delete):
            targets = [(t, False) for t in node.targets]
        for t, aug in targets:
            for x in (t.elts if isinstance(t, (ast.Tuple, ast.List)) else [t]):
                kind, nm = base_name(x)
                if kind == "self":
                    self_attrs.add(nm)
                elif kind == "name":
                    in_place = aug or isinstance(x, (ast.Subscript, ast.Attribute))
                    if in_place and nm in aliases:
                        mutated |= aliases[nm]
        if isinstance(node, ast.Call):
            f = node.func
            if isinstance(f, ast.Attribute) and f.attr in MUTATING_METHODS:
                kind, nm = base_name(f.value)
                if kind == "self":
                    self_attrs.add(nm)
                elif kind == "name" and nm in aliases:
                    mutated |= aliases[nm]
            for kw in node.keywords:
                if kw.arg == "out":
                    mutated |= may_alias(kw.value, aliases)
                    kind, nm = base_name(kw.value)
                    if kind == "self":
                        self_attrs.add(nm)
    # memoising decorators store the result on the instance / in a module-level cache: a hidden write
    for dec in fn.decorator_list:
        d_ = dec.func if isinstance(dec, ast.Call) else dec
        nm = d_.attr if isinstance(d_, ast.Attribute) else (d_.id if isinstance(d_, ast.Name) else "")
        if nm in MEMO_DECORATORS:
            self_attrs.add("<memo:" + fn.name + ">")
    return sorted(self_attrs), sorted(mutated), sorted(globs)


def scan(pkg):
    rows = []
    for fname in FILES:
        path = os.path.join(pkg, fname)
        tree = ast.parse(open(path).read())
        mod = fname[:-3]
        for node in tree.body:
            if isinstance(node, ast.FunctionDef):
                rows.append((f"{mod}.{node.name}",) + scan_function(node))
            elif isinstance(node, ast.ClassDef):
                for sub in node.body:
                    if isinstance(sub, ast.FunctionDef):
                        rows.append((f"{mod}.{node.name}.{sub.name}",) + scan_function(sub))
    return rows


def emit(rows):
    def lst(xs):
        return "[" + "; ".join(f'"{x}"' for x in xs) + "]"
    out = ["(* GENERATED by tools/py2coq/effects.py: effect summary of the API layer, as data *)",
           "From Coq Require Import String List.", "Import ListNotations.", "Open Scope string_scope.",
           "(* (function, attributes of self it assigns, parameters it may update in place, globals it rebinds) *)",
           "Definition effects : list (string * list string * list string * list string) := ["]
    out.append(";\n".join(f'  ("{r[0]}", {lst(r[1])}, {lst(r[2])}, {lst(r[3])})' for r in rows))
    out.append("].")
    return "\n".join(out) + "\n"


if __name__ == "__main__":
    pkg, outp = sys.argv[1], sys.argv[2]
    txt = emit(scan(pkg))
    try:
        if open(outp).read() == txt:
            sys.exit(0)
    except OSError:
        pass
    open(outp, "w").write(txt)
