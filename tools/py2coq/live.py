"""Backward liveness and assigned-variable analysis on the structured Python AST."""
import ast

from ptypes import TrError


def reads(e):
    """Names loaded anywhere inside expression (or statement) e."""
    out = set()
    for n in ast.walk(e):
        if isinstance(n, ast.Name) and isinstance(n.ctx, ast.Load):
            out.add(n.id)
    return out


def target_names(t):
    """(written names, read names) of an assignment target."""
    if isinstance(t, ast.Name):
        return {t.id}, set()
    if isinstance(t, ast.Subscript):
        if not isinstance(t.value, ast.Name):
            raise TrError(f"line {t.lineno}: store through a non-name")
        # partial update: the array is read as well as written
        return {t.value.id}, {t.value.id} | reads(t.slice)
    if isinstance(t, (ast.Tuple, ast.List)):
        w, r = set(), set()
        for x in t.elts:
            w2, r2 = target_names(x)
            w |= w2
            r |= r2
        return w, r
    raise TrError(f"line {t.lineno}: unsupported assignment target {ast.dump(t)}")


def assigned(stmts, mut_of_call=None):
    """Names (re)bound anywhere in stmts, including arrays updated in place or by callees."""
    out = set()
    for s in stmts:
        if isinstance(s, ast.Assign):
            for t in s.targets:
                out |= target_names(t)[0]
        elif isinstance(s, ast.AugAssign):
            out |= target_names(s.target)[0]
        elif isinstance(s, ast.If):
            out |= assigned(s.body, mut_of_call) | assigned(s.orelse, mut_of_call)
        elif isinstance(s, ast.For):
            out |= target_names(s.target)[0]
            out |= assigned(s.body, mut_of_call)
        elif isinstance(s, ast.While):
            out |= assigned(s.body, mut_of_call)
        elif isinstance(s, ast.Expr) and isinstance(s.value, ast.Call) and mut_of_call:
            out |= set(mut_of_call(s.value))
    return out


def has_terminator(stmts):
    """Does the block contain return/raise/break (at any depth, not crossing into nested loops for break)?"""
    for s in stmts:
        if isinstance(s, (ast.Return, ast.Raise, ast.Break, ast.Continue)):
            return True
        if isinstance(s, ast.If) and (has_terminator(s.body) or has_terminator(s.orelse)):
            return True
        if isinstance(s, (ast.For, ast.While)):
            for n in ast.walk(s):
                if isinstance(n, (ast.Return, ast.Raise)):
                    return True
    return False


def always_terminates(stmts):
    for s in stmts:
        if isinstance(s, (ast.Return, ast.Raise, ast.Break)):
            return True
        if isinstance(s, ast.If) and s.orelse and always_terminates(s.body) and always_terminates(s.orelse):
            return True
    return False


class Live:
    def __init__(self, mut_of_call):
        # mut_of_call(call_node) -> list of caller-side names the callee mutates
        self.mut_of_call = mut_of_call

    def block(self, stmts, out, brk):
        """live-in of a block given live-out `out` and live set at an enclosing `break` target."""
        cur = set(out)
        for s in reversed(stmts):
            cur = self.stmt(s, cur, brk)
        return cur

    def stmt(self, s, out, brk):
        if isinstance(s, ast.Assign):
            w, r = set(), set()
            for t in s.targets:
                w2, r2 = target_names(t)
                w |= w2
                r |= r2
            return (out - w) | r | reads(s.value)
        if isinstance(s, ast.AugAssign):
            w, r = target_names(s.target)
            return out | w | r | reads(s.value)
        if isinstance(s, ast.Expr):
            if isinstance(s.value, ast.Constant):
                return out
            return out | reads(s.value)
        if isinstance(s, ast.If):
            return reads(s.test) | self.block(s.body, out, brk) | self.block(s.orelse, out, brk)
        if isinstance(s, ast.For):
            lv, _ = target_names(s.target)
            head = set(out)
            for _ in range(4):
                inb = self.block(s.body, head | out, out) - lv
                new = head | inb
                if new == head:
                    break
                head = new
            return head | reads(s.iter)
        if isinstance(s, ast.While):
            head = set(out) | reads(s.test)
            for _ in range(4):
                inb = self.block(s.body, head, out)
                new = head | inb
                if new == head:
                    break
                head = new
            return head
        if isinstance(s, ast.Return):
            return reads(s.value) if s.value is not None else set()
        if isinstance(s, ast.Raise):
            return set()
        if isinstance(s, ast.Break):
            if brk is None:
                raise TrError(f"line {s.lineno}: break outside loop")
            return set(brk)
        if isinstance(s, ast.Pass):
            return out
        raise TrError(f"line {s.lineno}: unsupported statement {type(s).__name__}")
