"""Expression translation for py2coq (mixin of Translator)."""
import ast
from fractions import Fraction

from ptypes import INT, FLT, BOOL, Arr, Tup, ListOf, TrError, coq_ty


from util import mangle, proj, conj, zlit, ZipComp


class ExprMixin:
    # ------------------------------------------------------------------ helpers
    def coerce(self, txt, ty, want, node):
        if ty == want:
            return txt
        if ty == INT and want == FLT:
            return f"(nofZ {txt})"
        if ty == BOOL and want == BOOL:
            return txt
        self.err(node, f"cannot use a value of type {ty} where {want} is expected")

    def flt_lit(self, v, node):
        if v != v or v in (float("inf"), float("-inf")):
            self.err(node, "non-finite literal")
        fr = Fraction(repr(v))
        if fr.denominator == 1:
            if abs(fr.numerator) >= 2 ** 53:
                self.err(node, "integer-valued literal too large")
            return f"(nofZ {zlit(fr.numerator)})"
        if abs(fr.numerator) >= 2 ** 53 or fr.denominator >= 2 ** 53:
            self.err(node, f"literal {v!r} is not a quotient of two exactly representable integers")
        return f"(nofQ {zlit(fr.numerator)} {fr.denominator})"

    def is_np(self, f, name):
        return (isinstance(f, ast.Attribute) and isinstance(f.value, ast.Name)
                and f.value.id == "np" and f.attr == name)

    # ------------------------------------------------------------------ conditions
    def cond(self, e, env):
        """Expression in boolean context -> (bool text, obligation)."""
        if isinstance(e, ast.BoolOp):
            parts = [self.cond(v, env) for v in e.values]
            if isinstance(e.op, ast.And):
                txt = "(" + " && ".join(p[0] for p in parts) + ")"
                ob = None
                for p in reversed(parts):
                    if ob is None:
                        ob = p[1]
                    else:
                        ob = conj([p[1], f"(if {p[0]} then {ob} else true)"])
                return txt, ob
            txt = "(" + " || ".join(p[0] for p in parts) + ")"
            ob = None
            for p in reversed(parts):
                if ob is None:
                    ob = p[1]
                else:
                    ob = conj([p[1], f"(if {p[0]} then true else {ob})"])
            return txt, ob
        if isinstance(e, ast.UnaryOp) and isinstance(e.op, ast.Not):
            t, ob = self.cond(e.operand, env)
            return f"(negb {t})", ob
        txt, ty, ob = self.ex(e, env)
        if ty == BOOL:
            return txt, ob
        if ty == FLT:
            return f"(ntruthy {txt})", ob
        if ty == INT:
            return f"(negb ({txt} =? 0))", ob
        self.err(e, f"value of type {ty} used as a condition")

    # ------------------------------------------------------------------ subscripts
    def index_list(self, sub):
        sl = sub.slice
        if isinstance(sl, ast.Tuple):
            return list(sl.elts)
        return [sl]

    def idx_txt(self, idx, arrname, env):
        """index expressions -> ('[i; j]' text, obligation); negative literals count from the end."""
        a = mangle(arrname)
        items, obs = [], []
        for k, ix in enumerate(idx):
            neg = None
            if isinstance(ix, ast.UnaryOp) and isinstance(ix.op, ast.USub) and isinstance(ix.operand, ast.Constant) \
                    and isinstance(ix.operand.value, int):
                neg = ix.operand.value
            elif isinstance(ix, ast.Constant) and isinstance(ix.value, int) and ix.value < 0:
                neg = -ix.value
            if neg is not None:
                items.append(f"(dim {a} {k}%nat - {neg})")
                continue
            t, ty, ob = self.ex(ix, env)
            if ty != INT:
                self.err(ix, f"subscript of type {ty}")
            items.append(t)
            obs.append(ob)
        return "[" + "; ".join(items) + "]", conj(obs)

    def zip_default(self, zc, env):
        from ptypes import coq_default
        comps = sorted((v for v in env.values() if isinstance(v, ZipComp) and v.lvar == zc.lvar),
                       key=lambda c: c.idx)
        seen = {}
        for c in comps:
            seen[c.idx] = c.ty
        if len(seen) != zc.n:
            self.err(None, "internal: incomplete parallel-loop result")
        items = [coq_default(seen[k]) for k in range(zc.n)]
        return items[0] if zc.n == 1 else "(" + ", ".join(items) + ")"

    def dflt_of(self, elt):
        return {INT: "0", FLT: "(nofZ 0)", BOOL: "false"}[elt]

    def load_sub(self, e, env):
        if not isinstance(e.value, ast.Name):
            self.err(e, "subscript of a non-name")
        nm = e.value.id
        aty = env.get(nm)
        a = mangle(nm)
        if isinstance(aty, ZipComp):
            # component of item i of a parallel loop's result
            idx = self.index_list(e)
            if len(idx) != 1:
                self.err(e, "a parallel loop's result takes one index")
            t, ty, ob = self.ex(idx[0], env)
            if ty != INT:
                self.err(e, "index must be an integer")
            from ptypes import coq_default
            ity = Tup([None] * aty.n)
            item = f"(nth (Z.to_nat {t}) {aty.lvar} {self.zip_default(aty, env)})"
            return (proj(aty.idx, aty.n, item), aty.ty,
                    conj([ob, f"obI wI ((0 <=? {t}) && ({t} <? Z.of_nat (length {aty.lvar})))"]))
        if not isinstance(aty, Arr):
            self.err(e, f"subscript of {nm} : {aty}")
        idx = self.index_list(e)
        # boolean-mask selection
        if len(idx) == 1 and isinstance(idx[0], ast.Name) and env.get(idx[0].id) == Arr(BOOL, 1):
            if aty.nd != 1:
                self.err(e, "mask selection on a non-1-D array")
            return f"(amask {a} {mangle(idx[0].id)})", aty, None
        # column q[:, k]
        if len(idx) == 2 and isinstance(idx[0], ast.Slice) and aty.nd == 2:
            s0 = idx[0]
            if s0.lower or s0.upper or s0.step:
                self.err(e, "only the full slice ':' is supported")
            t, ty, ob = self.ex(idx[1], env)
            if ty != INT:
                self.err(e, "column index must be an integer")
            d = self.dflt_of(aty.elt)
            return (f"(col {d} {a} {t})", Arr(aty.elt, 1),
                    conj([ob, f"obI wI ((0 <=? {t}) && ({t} <? dim {a} 1%nat))"]))
        # ray[count::-1]
        if len(idx) == 1 and isinstance(idx[0], ast.Slice):
            s0 = idx[0]
            ok = (s0.lower is not None and s0.upper is None and isinstance(s0.step, ast.UnaryOp)
                  and isinstance(s0.step.op, ast.USub) and isinstance(s0.step.operand, ast.Constant)
                  and s0.step.operand.value == 1 and aty.nd == 2)
            if not ok:
                self.err(e, "unsupported slice")
            t, ty, ob = self.ex(s0.lower, env)
            if ty != INT:
                self.err(e, "slice bound must be an integer")
            return (f"(rev_prefix {a} {t})", aty,
                    conj([ob, f"obI wI ((0 <=? {t}) && ({t} <? dim {a} 0%nat))"]))
        for ix in idx:
            if isinstance(ix, ast.Slice):
                self.err(e, "unsupported slice")
        itx, iob = self.idx_txt(idx, nm, env)
        if len(idx) == aty.nd:
            d = self.dflt_of(aty.elt)
            return f"(get {d} {a} {itx})", aty.elt, conj([iob, f"obI wI (inb {a} {itx})"])
        if len(idx) < aty.nd:
            return (f"(get_sub {a} {itx})", Arr(aty.elt, aty.nd - len(idx)),
                    conj([iob, f"obI wI (inb_sub {a} {itx})"]))
        self.err(e, "too many indices")

    def store(self, target, vtxt, vty, env):
        """a[idx] = v  ->  (new array text, obligation)."""
        nm = target.value.id
        aty = env.get(nm)
        a = mangle(nm)
        if not isinstance(aty, Arr):
            self.err(target, f"store into {nm} : {aty}")
        idx = self.index_list(target)
        if len(idx) == 1 and isinstance(idx[0], ast.Slice):
            s0 = idx[0]
            if s0.lower or s0.upper or s0.step:
                self.err(target, "only a[:] = scalar is supported")
            v = self.coerce(vtxt, vty, aty.elt, target)
            return f"(fill {a} {v})", None
        for ix in idx:
            if isinstance(ix, ast.Slice):
                self.err(target, "unsupported slice store")
        itx, iob = self.idx_txt(idx, nm, env)
        if len(idx) == aty.nd:
            v = self.coerce(vtxt, vty, aty.elt, target)
            return f"(set {a} {itx} {v})", conj([iob, f"obI wI (inb {a} {itx})"])
        if len(idx) < aty.nd:
            if not (isinstance(vty, Arr) and vty.elt == aty.elt and vty.nd == aty.nd - len(idx)):
                self.err(target, f"cannot store {vty} into a sub-block of {aty}")
            ob = conj([iob, f"obI wI (inb_sub {a} {itx})",
                       f"obI wI (shape_eqb (shape {vtxt}) (skipn {len(idx)} (shape {a})))"])
            return f"(set_sub {a} {itx} {vtxt})", ob
        self.err(target, "too many indices")

    # ------------------------------------------------------------------ expressions
    def ex(self, e, env):
        """-> (text, Ty, obligation-or-None)"""
        if isinstance(e, ast.Constant):
            v = e.value
            if isinstance(v, bool):
                return ("true" if v else "false"), BOOL, None
            if isinstance(v, int):
                return zlit(v), INT, None
            if isinstance(v, float):
                return self.flt_lit(v, e), FLT, None
            self.err(e, f"unsupported constant {v!r}")
        if isinstance(e, ast.Name):
            if e.id in env:
                ty = env[e.id]
                if not isinstance(ty, (Arr, Tup, ListOf)) and ty not in (INT, FLT, BOOL):
                    self.err(e, f"{e.id} (a prange result) used as a plain value")
                return mangle(e.id), ty, None
            if e.id in self.cur_mod.consts:
                c, ty = self.cur_mod.consts[e.id]
                return c, ty, None
            self.err(e, f"unknown name {e.id}")
        if isinstance(e, ast.Attribute):
            if isinstance(e.value, ast.Name) and e.value.id == "np" and e.attr == "nan":
                return "nnan", FLT, None
            if isinstance(e.value, ast.Name) and isinstance(env.get(e.value.id), Arr):
                aty = env[e.value.id]
                a = mangle(e.value.id)
                if e.attr == "ndim":
                    return str(aty.nd), INT, None
                if e.attr == "shape":
                    return self.shape_tuple(a, aty)
            self.err(e, f"unsupported attribute {ast.unparse(e)}")
        if isinstance(e, ast.Tuple):
            parts = [self.ex(x, env) for x in e.elts]
            return ("(" + ", ".join(p[0] for p in parts) + ")", Tup([p[1] for p in parts]),
                    conj([p[2] for p in parts]))
        if isinstance(e, ast.UnaryOp):
            if isinstance(e.op, ast.USub):
                if isinstance(e.operand, ast.Constant) and isinstance(e.operand.value, (int, float)) \
                        and not isinstance(e.operand.value, bool):
                    v = -e.operand.value
                    if isinstance(v, int):
                        return zlit(v), INT, None
                    return self.flt_lit(v, e), FLT, None
                t, ty, ob = self.ex(e.operand, env)
                if ty == INT:
                    return f"(- {t})", INT, ob
                if ty == FLT:
                    return f"(nneg {t})", FLT, ob
                self.err(e, "unary minus on a non-number")
            if isinstance(e.op, ast.Not):
                t, ob = self.cond(e.operand, env)
                return f"(negb {t})", BOOL, ob
            self.err(e, "unsupported unary operator")
        if isinstance(e, ast.BoolOp):
            parts = [self.ex(v, env) for v in e.values]
            if all(p[1] == BOOL for p in parts):
                t, ob = self.cond(e, env)
                return t, BOOL, ob
            self.err(e, "and/or over non-boolean values outside a condition")
        if isinstance(e, ast.IfExp):
            c, cob = self.cond(e.test, env)
            a, aty, aob = self.ex(e.body, env)
            b, bty, bob = self.ex(e.orelse, env)
            ty = aty
            if aty != bty:
                if {aty, bty} == {INT, FLT}:
                    ty = FLT
                    a, b = self.coerce(a, aty, FLT, e), self.coerce(b, bty, FLT, e)
                else:
                    self.err(e, f"conditional expression with types {aty} / {bty}")
            ob = cob
            if aob or bob:
                ob = conj([cob, f"(if {c} then {aob or 'true'} else {bob or 'true'})"])
            return f"(if {c} then {a} else {b})", ty, ob
        if isinstance(e, ast.Compare):
            return self.compare(e, env)
        if isinstance(e, ast.BinOp):
            return self.binop(e, env)
        if isinstance(e, ast.Subscript):
            return self.load_sub(e, env)
        if isinstance(e, ast.Call):
            return self.call(e, env)
        if isinstance(e, ast.ListComp):
            return self.listcomp(e, env)
        self.err(e, f"unsupported expression {type(e).__name__}")

    def shape_tuple(self, a, aty):
        items = [f"(dim {a} {k}%nat)" for k in range(aty.nd)]
        if aty.nd == 1:
            return items[0], Tup([INT]), None
        return "(" + ", ".join(items) + ")", Tup([INT] * aty.nd), None

    CMP_Z = {ast.Lt: "<?", ast.LtE: "<=?", ast.Eq: "=?"}

    def cmp1(self, op, l, lty, r, rty, node):
        if isinstance(lty, Arr) or isinstance(rty, Arr):
            if not (lty == rty and lty.elt == FLT and lty.nd == 1):
                self.err(node, "array comparison needs two 1-D float arrays")
            f = {ast.Lt: "nltb", ast.Gt: "ngtb", ast.LtE: "nleb", ast.GtE: "ngeb"}.get(type(op))
            if f is None:
                self.err(node, "unsupported array comparison")
            return f"(amap2 {f} {l} {r})", Arr(BOOL, 1)
        if lty == INT and rty == INT:
            t = type(op)
            if t in self.CMP_Z:
                return f"({l} {self.CMP_Z[t]} {r})", BOOL
            if t == ast.Gt:
                return f"({r} <? {l})", BOOL
            if t == ast.GtE:
                return f"({r} <=? {l})", BOOL
            if t == ast.NotEq:
                return f"(negb ({l} =? {r}))", BOOL
            self.err(node, "unsupported integer comparison")
        if lty in (INT, FLT) and rty in (INT, FLT):
            l = self.coerce(l, lty, FLT, node)
            r = self.coerce(r, rty, FLT, node)
            f = {ast.Lt: "nltb", ast.Gt: "ngtb", ast.LtE: "nleb", ast.GtE: "ngeb",
                 ast.Eq: "neqb", ast.NotEq: "nneb"}.get(type(op))
            if f is None:
                self.err(node, "unsupported float comparison")
            return f"({f} {l} {r})", BOOL
        self.err(node, f"comparison between {lty} and {rty}")

    def compare(self, e, env):
        operands = [e.left] + list(e.comparators)
        parts = [self.ex(x, env) for x in operands]
        obs = conj([p[2] for p in parts])
        texts = []
        rty = BOOL
        for k, op in enumerate(e.ops):
            t, rty = self.cmp1(op, parts[k][0], parts[k][1], parts[k + 1][0], parts[k + 1][1], e)
            texts.append(t)
        if len(texts) == 1:
            return texts[0], rty, obs
        if rty != BOOL:
            self.err(e, "chained array comparison")
        return "(" + " && ".join(texts) + ")", BOOL, obs

    def binop(self, e, env):
        op = e.op
        if isinstance(op, ast.Pow):
            b, bty, bob = self.ex(e.left, env)
            r = e.right
            if not (isinstance(r, ast.Constant) and isinstance(r.value, float) and r.value in (2.0, 0.5)):
                self.err(e, "only ** 2.0 and ** 0.5 are supported")
            b = self.coerce(b, bty, FLT, e)
            if r.value == 2.0:
                return f"(nsq {b})", FLT, bob
            return f"(nsqrt {b})", FLT, bob
        l, lty, lob = self.ex(e.left, env)
        r, rty, rob = self.ex(e.right, env)
        ob = conj([lob, rob])
        fl = {ast.Add: "nadd", ast.Sub: "nsub", ast.Mult: "nmul", ast.Div: "ndiv"}.get(type(op))
        if fl is None:
            self.err(e, f"unsupported operator {type(op).__name__}")
        if isinstance(lty, Arr) or isinstance(rty, Arr):
            for t in (lty, rty):
                if isinstance(t, Arr) and not (t.elt == FLT and t.nd == 1):
                    self.err(e, "array arithmetic needs 1-D float arrays")
            if isinstance(lty, Arr) and isinstance(rty, Arr):
                ob = conj([ob, f"obI wI (shape_eqb (shape {l}) (shape {r}))"])
                if isinstance(op, ast.Div):
                    ob = conj([ob, f"obD wD (forallb (fun u_e_v => nneb u_e_v (nofZ 0)) (dat {r}))"])
                return f"(amap2 {fl} {l} {r})", lty, ob
            if isinstance(rty, Arr):
                l = self.coerce(l, lty, FLT, e)
                if isinstance(op, ast.Div):
                    ob = conj([ob, f"obD wD (forallb (fun u_e_v => nneb u_e_v (nofZ 0)) (dat {r}))"])
                return f"(amap (fun u_e_v => {fl} {l} u_e_v) {r})", rty, ob
            r = self.coerce(r, rty, FLT, e)
            if isinstance(op, ast.Div):
                ob = conj([ob, f"obD wD (nneb {r} (nofZ 0))"])
            return f"(amap (fun u_e_v => {fl} u_e_v {r}) {l})", lty, ob
        if lty == INT and rty == INT and not isinstance(op, ast.Div):
            zop = {ast.Add: "+", ast.Sub: "-", ast.Mult: "*"}[type(op)]
            return f"({l} {zop} {r})", INT, ob
        if lty in (INT, FLT) and rty in (INT, FLT):
            l = self.coerce(l, lty, FLT, e)
            r = self.coerce(r, rty, FLT, e)
            if isinstance(op, ast.Div):
                ob = conj([ob, f"obD wD (nneb {r} (nofZ 0))"])
            return f"({fl} {l} {r})", FLT, ob
        self.err(e, f"arithmetic between {lty} and {rty}")

    # ------------------------------------------------------------------ calls
    def minmax(self, which, e, env):
        parts = [self.ex(a, env) for a in e.args]
        ob = conj([p[2] for p in parts])
        n = len(parts)
        if n < 2 or n > 4:
            self.err(e, f"{which} with {n} arguments")
        if all(p[1] == INT for p in parts):
            f = "Z.min" if which == "min" else "Z.max"
            t = parts[0][0]
            for p in parts[1:]:
                t = f"({f} {t} {p[0]})"
            return t, INT, ob
        ts = [self.coerce(p[0], p[1], FLT, e) for p in parts]
        name = ("pymin" if which == "min" else "pymax") + str(n)
        if name == "pymax4":
            self.err(e, "max with 4 arguments")
        return f"({name} " + " ".join(ts) + ")", FLT, ob

    def shape_arg(self, a, env):
        """shape argument of np.full/zeros/empty -> '[d0; d1]' text, nd, ob"""
        if isinstance(a, ast.Tuple):
            parts = [self.ex(x, env) for x in a.elts]
        else:
            parts = [self.ex(a, env)]
        for p in parts:
            if p[1] != INT:
                self.err(a, "array extents must be integers")
        return "[" + "; ".join(p[0] for p in parts) + "]", len(parts), conj([p[2] for p in parts])

    def dtype_of(self, e, default=FLT):
        for kw in e.keywords:
            if kw.arg == "dtype":
                v = kw.value
                if isinstance(v, ast.Attribute) and isinstance(v.value, ast.Name) and v.value.id == "np":
                    if v.attr == "float64":
                        return FLT
                    if v.attr == "int32":
                        return INT
                self.err(e, "unsupported dtype")
            else:
                self.err(e, f"unsupported keyword {kw.arg}")
        return default

    def call(self, e, env):
        f = e.func
        if isinstance(f, ast.Name):
            nm = f.id
            if nm in ("min", "max"):
                return self.minmax(nm, e, env)
            if nm == "int":
                t, ty, ob = self.ex(e.args[0], env)
                if ty == INT:
                    return t, INT, ob
                return f"(ntrunc {self.coerce(t, ty, FLT, e)})", INT, ob
            if nm == "float":
                t, ty, ob = self.ex(e.args[0], env)
                return self.coerce(t, ty, FLT, e), FLT, ob
            if nm == "len":
                t, ty, ob = self.ex(e.args[0], env)
                if not isinstance(ty, Arr):
                    self.err(e, "len of a non-array")
                return f"(dim {t} 0%nat)", INT, ob
            if self.lookup_func(nm):
                fi = self.pick(self.lookup_func(nm), e, env)
                if fi.can_raise:
                    self.err(e, f"call of raising function {nm} inside an expression")
                if fi.mutated:
                    self.err(e, f"call of in-place procedure {nm} inside an expression")
                txt, ty, ob, okc = self.call_user(e, env)
                return txt, ty, conj([ob, okc])
            self.err(e, f"call of unknown function {nm}")
        if isinstance(f, ast.Attribute):
            if isinstance(f.value, ast.Name) and f.value.id == "np":
                return self.np_call(f.attr, e, env)
            # methods on arrays
            if isinstance(f.value, ast.Name) and isinstance(env.get(f.value.id), Arr):
                aty = env[f.value.id]
                a = mangle(f.value.id)
                if f.attr == "copy" and not e.args:
                    return a, aty, None
                if f.attr == "any" and not e.args and aty.elt == BOOL:
                    return f"(aany {a})", BOOL, None
                if f.attr == "min" and not e.args and aty.elt == FLT:
                    return f"(amin {a})", FLT, f"obI wI (0 <? alen {a})"
            if f.attr == "min" and isinstance(f.value, ast.Name) is False:
                pass
            self.err(e, f"unsupported method call {ast.unparse(f)}")
        self.err(e, "unsupported call")

    def np_call(self, name, e, env):
        if name == "abs":
            t, ty, ob = self.ex(e.args[0], env)
            if ty == INT:
                return f"(Z.abs {t})", INT, ob
            if ty == FLT:
                return f"(nabs {t})", FLT, ob
            self.err(e, "np.abs of a non-number")
        if name == "round":
            t, ty, ob = self.ex(e.args[0], env)
            return f"(nround {self.coerce(t, ty, FLT, e)})", FLT, ob
        if name == "shape":
            t, ty, ob = self.ex(e.args[0], env)
            if not isinstance(ty, Arr):
                self.err(e, "np.shape of a non-array")
            return self.shape_tuple(t, ty)
        if name == "searchsorted":
            if len(e.args) != 2 or len(e.keywords) != 1 or e.keywords[0].arg != "side" \
                    or not isinstance(e.keywords[0].value, ast.Constant) or e.keywords[0].value.value != "right":
                self.err(e, "only np.searchsorted(x, q, side='right') is supported")
            a, aty, aob = self.ex(e.args[0], env)
            q, qty, qob = self.ex(e.args[1], env)
            if aty != Arr(FLT, 1):
                self.err(e, "searchsorted needs a 1-D float array")
            return f"(searchsorted_right {a} {self.coerce(q, qty, FLT, e)})", INT, conj([aob, qob])
        if name in ("full", "zeros", "empty"):
            sh, nd, ob = self.shape_arg(e.args[0], env)
            if name == "full":
                v, vty, vob = self.ex(e.args[1], env)
                elt = self.dtype_of(e)
                return f"(full {sh} {self.coerce(v, vty, elt, e)})", Arr(elt, nd), conj([ob, vob])
            elt = self.dtype_of(e)
            return f"(full {sh} {self.dflt_of(elt)})", Arr(elt, nd), ob
        if name == "array":
            a0 = e.args[0]
            elt = self.dtype_of(e)
            if not isinstance(a0, ast.List):
                self.err(e, "np.array needs a list literal")
            parts = [self.ex(x, env) for x in a0.elts]
            ts = [self.coerce(p[0], p[1], elt, e) for p in parts]
            return "(of_list [" + "; ".join(ts) + "])", Arr(elt, 1), conj([p[2] for p in parts])
        self.err(e, f"unsupported numpy function np.{name}")

    def arg_types(self, e, env):
        out = []
        for a in e.args:
            try:
                out.append(self.ex(a, env)[1])
            except TrError:
                raise
        return out

    def pick(self, fis, e, env):
        """choose the specialisation whose array ranks match the call's arguments."""
        if len(fis) == 1:
            return fis[0]
        saved = self.mode
        tys = self.arg_types(e, env)
        self.mode = saved
        for fi in fis:
            ok = True
            for (p, pt), at in zip(fi.params, tys):
                if isinstance(pt, Arr) != isinstance(at, Arr) or (isinstance(pt, Arr) and pt.nd != at.nd):
                    ok = False
            if ok:
                return fi
        self.err(e, "no specialisation matches this call")

    def call_user(self, e, env):
        """-> (call text, result Ty, obligation of the arguments, callee-ok text)"""
        fis = self.lookup_func(e.func.id)
        fi = self.pick(fis, e, env)
        if e.keywords:
            self.err(e, "keyword arguments in a kernel call")
        args = list(e.args)
        pn = [p for p, _ in fi.params]
        if len(args) > len(pn):
            self.err(e, "too many arguments")
        for p in pn[len(args):]:
            if p not in fi.defaults:
                self.err(e, f"missing argument {p}")
            args.append(fi.defaults[p])
        texts, obs = [], []
        for a, (p, pt) in zip(args, fi.params):
            t, ty, ob = self.ex(a, env)
            obs.append(ob)
            if isinstance(pt, Arr) or isinstance(pt, Tup):
                if ty != pt:
                    self.err(e, f"argument {p} of {fi.name}: expected {pt}, got {ty}")
                texts.append(t)
            else:
                texts.append(self.coerce(t, ty, pt, e))
        # specialise static ndim dispatch: handled in if_ through constant folding of q.ndim
        fuel = "fuel " if fi.needs_fuel else ""
        mod = fi.module
        q = "" if mod is self.cur_mod else f"{mod.coqname}."
        txt = f"({q}{fi.coq} {fuel}" + " ".join(texts) + ")"
        okc = f"({q}{fi.coq}_ok wI wD {fuel}" + " ".join(texts) + ")"
        ty = fi.ret
        if ty is None:
            self.err(e, f"recursive or forward call of {fi.name}")
        return txt, ty, conj(obs), okc

    def listcomp(self, e, env):
        # [E for a, b in zip(A, B)] where A, B are the components of one prange result, in order
        if len(e.generators) != 1:
            self.err(e, "unsupported comprehension")
        g = e.generators[0]
        if g.ifs or not (isinstance(g.iter, ast.Call) and isinstance(g.iter.func, ast.Name) and g.iter.func.id == "zip"):
            self.err(e, "comprehension must iterate over zip(...)")
        srcs = g.iter.args
        comps = []
        for a in srcs:
            if not (isinstance(a, ast.Name) and isinstance(env.get(a.id), ZipComp)):
                self.err(e, "zip arguments must be results of one parallel loop")
            comps.append(env[a.id])
        lvar, n = comps[0].lvar, comps[0].n
        if [c.idx for c in comps] != list(range(n)) or any(c.lvar != lvar for c in comps):
            self.err(e, "zip arguments must be all components of one parallel loop, in order")
        if not (isinstance(g.target, ast.Tuple) and len(g.target.elts) == n):
            self.err(e, "comprehension target arity")
        env2 = dict(env)
        lets = []
        for k, t in enumerate(g.target.elts):
            env2[t.id] = comps[k].ty
            lets.append(f"let {mangle(t.id)} := {proj(k, n, 'u_it_v')} in ")
        t, ty, ob = self.ex(e.elt, env2)
        ity = coq_ty(Tup([c.ty for c in comps]))
        fn = f"(fun (u_it_v : {ity}) => " + "".join(lets) + t + ")"
        okf = None
        if ob:
            okf = f"forallb (fun (u_it_v : {ity}) => " + "".join(lets) + ob + f") {lvar}"
        return f"(map {fn} {lvar})", ListOf(ty), okf
