"""Small helpers shared by the translator modules."""

RESERVED = {
    "shape", "dim", "get", "set", "full", "fill", "col", "T", "fuel", "wI", "wD", "fst", "snd",
    "at", "in", "fun", "end", "as", "if", "then", "else", "let", "match", "with", "return",
    "Type", "Set", "Prop", "nat", "Z", "bool", "list", "map", "seq", "rev", "length", "nth",
    "true", "false", "dat", "Ok", "Raise", "Next", "Brk", "Exc", "min", "max", "tt", "H",
    "inb", "flat", "upd", "arr", "res", "exn", "ctl", "fix", "forall", "exists", "using",
    "where", "struct", "cofix", "mod", "S", "O", "I", "N", "Q", "R", "pi", "sqrt",
}


def mangle(name):
    if name in RESERVED or name.startswith("_"):
        return name + "_v" if not name.startswith("_") else "u" + name + "_v"
    return name


def proj(k, n, s):
    if n == 1:
        return s
    if k == 0:
        t = s
        for _ in range(n - 1):
            t = f"(fst {t})"
        return t
    t = s
    for _ in range(n - 1 - k):
        t = f"(fst {t})"
    return f"(snd {t})"


def tuple_txt(items):
    if not items:
        return "Datatypes.tt"
    if len(items) == 1:
        return items[0]
    return "(" + ", ".join(items) + ")"


def conj(obs):
    obs = [o for o in obs if o]
    if not obs:
        return None
    if len(obs) == 1:
        return obs[0]
    return "(" + " && ".join(obs) + ")"


def zlit(n):
    return str(n) if n >= 0 else f"({n})"


class ZipComp:
    """A name bound by unpacking a prange result: component `idx` of each item of list `lvar`."""

    def __init__(self, lvar, idx, n, ty):
        self.lvar, self.idx, self.n, self.ty = lvar, idx, n, ty


