"""Shared machinery of the checks: regeneration, Coq build, verdict, evidence."""
import fcntl
import json
import os
import re
import subprocess
import sys
import time

VERIF = os.path.dirname(os.path.dirname(os.path.abspath(__file__)))
COQ = os.path.join(VERIF, "coq")
REPO = os.environ.get("VERIF_REPO", "/repo")
WORK = os.path.join(VERIF, "work")
QFLAGS = ["-Q", "lib", "FT.lib", "-Q", "gen", "FT.gen", "-Q", "model", "FT.model",
          "-Q", "proofs", "FT.proofs", "-Q", "props", "FT.props"]
GEN_MODULES = ["Flags", "Effects", "ApiGen", "IoGen", "Common", "Interp2d", "Interp3d", "Vinterp2d", "Vinterp3d", "FteikCommon",
               "Fteik2d", "Fteik3d", "Ray2d", "Ray3d"]

STD_AXIOMS = {
    "ClassicalDedekindReals.sig_not_dec": "Coq standard library (real numbers)",
    "ClassicalDedekindReals.sig_forall_dec": "Coq standard library (real numbers)",
    "FunctionalExtensionality.functional_extensionality_dep": "Coq standard library (real numbers)",
    "Classical_Prop.classic": "Coq standard library (classical logic)",
}


class Lock:
    def __init__(self, name="build"):
        os.makedirs(WORK, exist_ok=True)
        self.path = os.path.join(WORK, f".{name}.lock")

    def __enter__(self):
        self.f = open(self.path, "w")
        fcntl.flock(self.f, fcntl.LOCK_EX)
        return self

    def __exit__(self, *a):
        fcntl.flock(self.f, fcntl.LOCK_UN)
        self.f.close()


def sh(cmd, cwd=None, timeout=3600, env=None):
    p = subprocess.run(cmd, cwd=cwd, shell=isinstance(cmd, str), capture_output=True, text=True,
                       timeout=timeout, env=env)
    return p.returncode, p.stdout + p.stderr


def regen():
    """Regenerate coq/gen from the current /repo working tree.  Returns status dict per module."""
    os.makedirs(os.path.join(COQ, "gen"), exist_ok=True)
    rc, out = sh([sys.executable, os.path.join(VERIF, "tools", "py2coq", "py2coq.py"),
                  "--pkg", os.path.join(REPO, "fteikpy"), "--out", os.path.join(COQ, "gen")])
    rc2, out2 = sh([sys.executable, os.path.join(VERIF, "tools", "py2coq", "effects.py"),
                    os.path.join(REPO, "fteikpy"), os.path.join(COQ, "gen", "Effects.v")])
    try:
        status = json.load(open(os.path.join(COQ, "gen", "status.json")))
    except (OSError, ValueError):
        status = {m: {"ok": False, "error": "translator crashed: " + out[-500:]} for m in GEN_MODULES}
    # API layer (_base.py, _grid.py, _solver.py): fail-closed extraction of the arithmetic and the argument wiring
    rc3, out3 = sh([sys.executable, os.path.join(VERIF, "tools", "py2coq", "apigen.py"),
                    "--pkg", os.path.join(REPO, "fteikpy"), "--out", os.path.join(COQ, "gen")])
    status["ApiGen"] = {"ok": True} if rc3 == 0 else {"ok": False, "error": (out3.strip().splitlines() or ["apigen failed"])[-1][-400:]}
    # mesh export (_io.py): same kind of extraction
    rc4, out4 = sh([sys.executable, os.path.join(VERIF, "tools", "py2coq", "iogen.py"),
                    "--pkg", os.path.join(REPO, "fteikpy"), "--out", os.path.join(COQ, "gen")])
    status["IoGen"] = {"ok": True} if rc4 == 0 else {"ok": False, "error": (out4.strip().splitlines() or ["iogen failed"])[-1][-400:]}
    for mod in ("ApiGen", "IoGen"):
        # a rejected source leaves no generated file; an (empty) stub keeps `make` able to build everything that does not
        # depend on it, while every theorem about the rejected layer stops compiling
        if not status[mod]["ok"]:
            with open(os.path.join(COQ, "gen", mod + ".v"), "w") as f:
                f.write("(* extraction REJECTED: " + status[mod]["error"].replace("*)", "* )") + " *)\n")
    status["Flags"] = {"ok": os.path.exists(os.path.join(COQ, "gen", "Flags.v"))}
    status["Effects"] = {"ok": rc2 == 0, "error": out2[-400:]} if rc2 != 0 else {"ok": True}
    return status


def ensure_makefile():
    mk = os.path.join(COQ, "Makefile")
    cp = os.path.join(COQ, "_CoqProject")
    if not os.path.exists(mk) or os.path.getmtime(mk) < os.path.getmtime(cp):
        sh("coq_makefile -f _CoqProject -o Makefile", cwd=COQ)


def enclosing_lemma(path, line):
    try:
        lines = open(path).read().split("\n")
    except OSError:
        return None
    for k in range(min(line, len(lines)) - 1, -1, -1):
        m = re.match(r"\s*(?:#\[[^\]]*\]\s*)?(?:Local |Global )?(Lemma|Theorem|Corollary|Fact|Instance|Definition|Example|Fixpoint|Remark)\s+([A-Za-z0-9_']+)", lines[k])
        if m:
            return m.group(2)
    return None


def build(targets, jobs=12, timeout=3000):
    """make the given .vo targets (paths relative to coq/).  Returns (ok, info)."""
    ensure_makefile()
    t0 = time.time()
    rc, out = sh(f"timeout {timeout} make -k -j{jobs} " + " ".join(targets), cwd=COQ, timeout=timeout + 60)
    info = {"wall_s": time.time() - t0, "failed": []}
    if rc != 0:
        for m in re.finditer(r'File "\./([^"]+)", line (\d+), characters [^\n]*\n(Error:[^\n]*(?:\n[^\n]+){0,6})', out):
            f, ln, msg = m.group(1), int(m.group(2)), m.group(3)
            info["failed"].append({"file": f, "line": ln, "lemma": enclosing_lemma(os.path.join(COQ, f), ln),
                                   "error": msg[:600]})
        if not info["failed"]:
            info["failed"].append({"file": "?", "line": 0, "lemma": None, "error": out[-800:]})
    return rc == 0, info


def print_assumptions(vfile):
    """Compile a props file and collect the Print Assumptions output per theorem."""
    rc, out = sh(["coqc"] + QFLAGS + [vfile], cwd=COQ, timeout=1800)
    res = {}
    if rc != 0:
        return None, out
    # sequence of blocks: "Closed under the global context" or "Axioms:\n name : type ..."
    text = open(os.path.join(COQ, vfile)).read()
    names = re.findall(r"Print Assumptions\s+([A-Za-z0-9_'.]+)\s*\.", text)
    blocks = re.split(r"(?=^Closed under the global context|^Axioms:)", out, flags=re.M)
    blocks = [b for b in blocks if b.startswith("Closed") or b.startswith("Axioms:")]
    for nm, b in zip(names, blocks):
        if b.startswith("Closed"):
            res[nm] = []
        else:
            ax = [x for x in re.findall(r"^([A-Za-z0-9_'.]+)\s*:", b, flags=re.M) if x != 'Axioms']
            res[nm] = sorted(set(ax))
    return res, out


def axiom_note(name):
    if name in STD_AXIOMS:
        return STD_AXIOMS[name]
    if name.startswith("FloatAxioms."):
        return "Coq standard library (FloatAxioms: specification of the primitive floats)"
    if name.startswith("Uint63."):
        return "Coq standard library (Uint63: axioms specifying the primitive 63-bit integers)"
    if "." not in name or name.startswith(("PrimInt63.", "PrimFloat.")):
        return "Coq primitive float / int63 type or operation (kernel primitive, listed by Print Assumptions)"
    return "Coq standard library"


def theorems_in(vfile):
    text = open(os.path.join(COQ, vfile)).read()
    return re.findall(r"^\s*(?:Theorem|Corollary)\s+([A-Za-z0-9_']+)", text, flags=re.M)


def strip_coq_comments(text):
    """blank out (possibly nested, possibly multi-line) Coq comments, keeping line structure; string literals are kept"""
    out, depth, i, n, instr = [], 0, 0, len(text), False
    while i < n:
        c = text[i]
        if depth == 0 and c == '"':
            instr = not instr
            out.append(c)
        elif not instr and text.startswith("(*", i):
            depth += 1
            out.append("  ")
            i += 2
            continue
        elif not instr and depth > 0 and text.startswith("*)", i):
            depth -= 1
            out.append("  ")
            i += 2
            continue
        else:
            out.append(c if (depth == 0 or c == "\n") else " ")
        i += 1
    return "".join(out)


def grep_forbidden():
    """No Axiom/Parameter/Admitted/admit/guard-off anywhere in hand-written Coq."""
    bad = []
    pat = re.compile(r"\b(Axiom|Axioms|Parameter|Parameters|Conjecture|Admitted|admit|Hypothesis|Variable|Variables|Hypotheses)\b|Unset Guard|bypass_check|type-in-type|impredicative-set|Admit Obligations")
    try:
        listed = {l.strip() for l in open(os.path.join(COQ, "_CoqProject")) if l.strip().endswith(".v")}
    except OSError:
        listed = set()
    for d in ("lib", "model", "proofs", "props"):
        dd = os.path.join(COQ, d)
        if not os.path.isdir(dd):
            continue
        for f in sorted(os.listdir(dd)):
            # only the files that are part of the development (_CoqProject); scratch files are not built either
            if not f.endswith(".v") or f"{d}/{f}" not in listed:
                continue
            depth = 0
            raw_lines = open(os.path.join(dd, f)).read().split("\n")
            for k, (line, code) in enumerate(zip(raw_lines, strip_coq_comments("\n".join(raw_lines)).split("\n")), 1):
                if re.match(r"\s*Section\b", code):
                    depth += 1
                if re.match(r"\s*End\b", code) and depth > 0:
                    depth -= 1
                m = pat.search(code)
                if m:
                    w = m.group(0)
                    if w in ("Hypothesis", "Variable", "Variables", "Hypotheses") and depth > 0:
                        continue
                    bad.append(f"{d}/{f}:{k}: {line.strip()[:100]}")
    return bad


def load_known():
    p = os.path.join(VERIF, "known_findings.json")
    try:
        return json.load(open(p))
    except (OSError, ValueError):
        return {"known": [], "fixed": []}


def write_evidence(pid, ev):
    os.makedirs(os.path.join(VERIF, "evidence"), exist_ok=True)
    with open(os.path.join(VERIF, "evidence", f"{pid}.json"), "w") as f:
        json.dump(ev, f, indent=1, sort_keys=True, default=str)
        f.write("\n")


def write_replay(pid, obj):
    d = os.path.join(VERIF, "work", "replays")
    os.makedirs(d, exist_ok=True)
    path = os.path.join(d, f"{pid}_{int(time.time())}_{os.getpid()}.json")
    with open(path, "w") as f:
        json.dump(obj, f, indent=1, default=str)
        f.write("\n")
    return path
