"""Correspondence for the hand-written API models (coq/model/*.v): the model's executable definitions are evaluated
inside Coq (vm_compute) and compared with what the implementation produces on the same inputs."""
import json
import os
import re
import subprocess
import sys

import numpy as np

sys.path.insert(0, os.path.dirname(os.path.abspath(__file__)))
import coqeval  # noqa: E402
import impl  # noqa: E402

HEADER = """From Coq Require Import ZArith List Bool.
From FT.model Require Import MeshIO.
Import ListNotations.
Open Scope Z_scope.
"""

CHILD = r'''
import json, sys, types, os
sys.path.insert(0, os.environ.get("VERIF_REPO", "/repo"))
import numpy as np
class FakeMesh:
    def __init__(self, points, cells, point_data=None, cell_data=None):
        self.points, self.cells, self.point_data, self.cell_data = points, cells, point_data or {}, cell_data or {}
m = types.ModuleType("meshio"); m.Mesh = FakeMesh; sys.modules["meshio"] = m
import fteikpy
cases = json.load(open(sys.argv[1]))
out = []
for c in cases:
    if c["kind"] == "grid":
        cells, d, o = c["cells"], c["d"], c["o"]
        nd = len(cells)
        E = (fteikpy.Eikonal2D if nd == 2 else fteikpy.Eikonal3D)(np.arange(1, 1 + int(np.prod(cells)), dtype=float).reshape(cells), d, o)
        mesh = fteikpy.grid_to_meshio(E)
        P = np.asarray(mesh.points)
        # decode every point to its node index triple (ix, iy, iz) from its coordinates
        idx = []
        for x, y, z in P:
            ix = int(round((x - o[1]) / d[1])); iz = int(round((-z - o[0]) / d[0]))
            iy = int(round((y - o[2]) / d[2])) if nd == 3 else 0
            idx.append([ix, iy, iz])
        out.append({"points": idx, "cells": np.asarray(mesh.cells[0][1]).tolist(),
                    "vel": np.asarray(mesh.cell_data["Velocity"][0]).tolist()})
    elif c["kind"] == "resample":
        cells, d, o, new = c["cells"], c["d"], c["o"], c["new"]
        nd = len(cells)
        E = (fteikpy.Eikonal2D if nd == 2 else fteikpy.Eikonal3D)(np.ones(cells), d, o)
        E.resample(tuple(new))
        out.append({"gridsize": [float(x).hex() for x in E.gridsize], "shape": list(E.shape)})
    elif c["kind"] == "smooth":
        import fteikpy._base as B
        cells, d, o = c["cells"], c["d"], c["o"]
        nd = len(cells)
        E = (fteikpy.Eikonal2D if nd == 2 else fteikpy.Eikonal3D)(np.ones(cells), d, o)
        rec = []
        orig = B.gaussian_filter
        B.gaussian_filter = lambda a, sigma, *aa, **kw: (rec.append(np.ravel(np.asarray(sigma, dtype=float) * np.ones(nd)).tolist()), np.asarray(a))[1]
        try:
            E.smooth(c["sigma"] if len(c["sigma"]) > 1 else c["sigma"][0])
        finally:
            B.gaussian_filter = orig
        out.append({"calls": [[float(x).hex() for x in r_] for r_ in rec], "gridsize": [float(x).hex() for x in E.gridsize], "shape": list(E.shape)})
    else:
        rays = [np.zeros((n, c["nd"])) for n in c["lens"]]
        mesh = fteikpy.ray_to_meshio(*rays)
        out.append({"segments": [np.asarray(cc).tolist() for _, cc in mesh.cells]})
json.dump(out, open(sys.argv[2], "w"))
'''


def coq_eval_Z(terms, workdir):
    """evaluate closed terms built from Z / lists / pairs; returns the parsed nested integer structure"""
    os.makedirs(workdir, exist_ok=True)
    path = os.path.join(workdir, "api_cases.v")
    with open(path, "w") as f:
        f.write(HEADER)
        for t in terms:
            f.write(f"Eval vm_compute in ({t}).\n")
    p = subprocess.run(["coqc"] + coqeval.QFLAGS + [path], cwd=coqeval.COQ, capture_output=True, text=True, timeout=900)
    if p.returncode != 0:
        raise RuntimeError("coqc failed on the API model cases:\n" + p.stdout[-1500:] + p.stderr[-1500:])
    blocks = re.split(r"^\s*=\s", p.stdout, flags=re.M)[1:]
    res = []
    for b in blocks:
        b = re.split(r"\n\s*:\s", b)[0]
        b = b.replace(";", ",").replace("%Z", "")
        b = re.sub(r"\s+", " ", b)
        res.append(json.loads(b.replace("(", "[").replace(")", "]")))
    for ext in (".v", ".vo", ".vok", ".vos", ".glob"):
        try:
            os.remove(path[:-2] + ext)
        except OSError:
            pass
    return res


def run_mesh(n, seed, workdir):
    rs = np.random.RandomState(seed)
    cases = []
    terms = []
    for it in range(n):
        nd = 2 if rs.rand() < 0.5 else 3
        cells = [int(rs.randint(1, 5)) for _ in range(nd)]
        d = [float(rs.choice([0.5, 1.0, 2.0, 3.7])) for _ in range(nd)]
        o = [float(rs.choice([0.0, -64.0, 8.0])) for _ in range(nd)]
        cases.append({"kind": "grid", "cells": cells, "d": d, "o": o})
        if nd == 2:
            nz, nx = cells
            terms += [f"points2 {nx} {nz}", f"cells2 {nx} {nz}",
                      f"map (fun p => ravel2 {nx} (snd p) (fst p)) (flat_map (fun iz => map (fun ix => (ix, iz)) (range0 {nx})) (range0 {nz}))"]
        else:
            nz, nx, ny = cells
            terms += [f"points3 {nx} {ny} {nz}", f"cells3 {nx} {ny} {nz}",
                      f"map (fun p => (snd p * {nx} + fst (fst p)) * {ny} + snd (fst p)) (flat_map (fun ix => flat_map (fun iy => map (fun iz => (ix, iy, iz)) (range0 {nz})) (range0 {ny})) (range0 {nx}))"]
    for it in range(max(3, n // 3)):
        lens = [int(rs.randint(2, 6)) for _ in range(int(rs.randint(1, 4)))]
        cases.append({"kind": "rays", "lens": lens, "nd": int(rs.choice([2, 3]))})
        terms.append("rays_segments 0 [" + "; ".join(map(str, lens)) + "]")
    os.makedirs(workdir, exist_ok=True)
    cpath, opath, spath = (os.path.join(workdir, x) for x in ("api_cases.json", "api_out.json", "api_child.py"))
    json.dump(cases, open(cpath, "w"))
    open(spath, "w").write(CHILD)
    if os.path.exists(opath):
        os.remove(opath)
    p = subprocess.run([impl.PY, spath, cpath, opath], env=impl.env_for("jit"), capture_output=True, text=True, timeout=900)
    failures = []
    if not os.path.exists(opath):
        return {"cases": len(cases), "failures": [{"kernel": "io", "why": "implementation run failed: " + p.stderr[-800:], "meta": {}}],
                "unstable": [], "hangs": [], "groups": {}}
    outs = json.load(open(opath))
    model = coq_eval_Z(terms, workdir)
    k = 0
    for c, o_ in zip(cases, outs):
        if c["kind"] == "grid":
            pts, cls, vel = model[k], model[k + 1], model[k + 2]
            k += 3
            nd = len(c["cells"])
            if nd == 2:
                mpts = [[p[0], 0, p[1]] for p in pts]
            else:
                mpts = [[p[0][0], p[0][1], p[1]] if isinstance(p[0], list) else p for p in pts]
            if mpts != o_["points"]:
                failures.append({"kernel": "_io.grid_to_meshio", "why": "point order differs from the model", "meta": c})
            elif cls != o_["cells"]:
                failures.append({"kernel": "_io.grid_to_meshio", "why": "cell connectivity differs from the model", "meta": c})
            else:
                # cell data: the model says cell number c carries the raveled velocity entry vel_index[c]
                want = [float(v_ + 1) for v_ in vel]
                if want != [float(x) for x in o_["vel"]]:
                    failures.append({"kernel": "_io.grid_to_meshio", "why": "cell data order differs from the model", "meta": c})
        else:
            segs = model[k]
            k += 1
            if segs != o_["segments"]:
                failures.append({"kernel": "_io.ray_to_meshio", "why": "ray connectivity differs from the model", "meta": c})
    return {"cases": len(cases), "failures": failures, "unstable": [], "hangs": [],
            "groups": {"mesh": {"n": len(cases), "agree": len(cases) - len(failures)}},
            "samples": [cases[0]]}


def run_meta(n, seed, workdir):
    """resample metadata: model (binary64 instance, vm_compute) vs implementation, bit for bit"""
    rs = np.random.RandomState(seed)
    cases, terms = [], []
    for it in range(n):
        nd = 2 if rs.rand() < 0.5 else 3
        cells = [int(rs.randint(1, 9)) for _ in range(nd)]
        new = [int(rs.randint(2, 12)) for _ in range(nd)]
        d = [float(rs.choice([0.1, 0.5, 1.0, 2.0, 3.7, 25.0])) for _ in range(nd)]
        o = [float(rs.choice([0.0, -64.0, 8.0])) for _ in range(nd)]
        cases.append({"kind": "resample", "cells": cells, "d": d, "o": o, "new": new})
        gs = "; ".join(coqeval.flit(x) for x in d)
        terms.append(f"@resample_gridsize float NumF [{gs}] [" + "; ".join(f"{c}%Z" for c in cells) + "] [" + "; ".join(f"{c}%Z" for c in new) + "]")
        # smooth: the filter must be called exactly once with sigma / gridsize per axis, in every unit system (m .. nm)
        u = float(rs.choice([1.0, 1e-3, 1e3, 1e-9, 1e9, 1e-12]))
        d2 = [x * u for x in d]
        sig = [float(rs.uniform(0.3, 2.5)) * x for x in d2] if rs.rand() < 0.5 else [float(rs.uniform(0.3, 2.5)) * d2[0]]
        cases.append({"kind": "smooth", "cells": cells, "d": d2, "o": [x * u for x in o], "sigma": sig})
        sg = "; ".join(coqeval.flit(x) for x in (sig if len(sig) > 1 else sig * nd))
        terms.append(f"@smooth_arg float NumF [{sg}] [" + "; ".join(coqeval.flit(x) for x in d2) + "]")
    os.makedirs(workdir, exist_ok=True)
    cpath, opath, spath = (os.path.join(workdir, x) for x in ("meta_cases.json", "meta_out.json", "api_child.py"))
    json.dump(cases, open(cpath, "w"))
    open(spath, "w").write(CHILD)
    if os.path.exists(opath):
        os.remove(opath)
    p = subprocess.run([impl.PY, spath, cpath, opath], env=impl.env_for("jit"), capture_output=True, text=True, timeout=900)
    if not os.path.exists(opath):
        return {"cases": len(cases), "failures": [{"kernel": "_base.resample", "why": "implementation run failed: " + p.stderr[-800:], "meta": {}}],
                "unstable": [], "hangs": [], "groups": {}}
    outs = json.load(open(opath))
    hdr = coqeval.HEADER + "From FT.model Require Import GridMeta.\n"
    vals = coqeval.run_terms(terms, os.path.join(workdir, "coq"), header=hdr)
    failures = []
    for c, o_, v in zip(cases, outs, vals):
        if c["kind"] == "smooth":
            calls = [[float.fromhex(x) for x in r_] for r_ in o_["calls"]]
            if calls != [v] or [float.fromhex(x) for x in o_["gridsize"]] != c["d"] or o_["shape"] != c["cells"]:
                failures.append({"kernel": "_base.smooth", "why": f"filter calls {calls} (spacing {o_['gridsize']}, shape {o_['shape']}) vs model: one call with {v}, metadata kept", "meta": c})
            continue
        got = [float.fromhex(x) for x in o_["gridsize"]]
        if got != v or o_["shape"] != c["new"]:
            failures.append({"kernel": "_base.resample", "why": f"metadata {got} / {o_['shape']} vs model {v} / {c['new']}", "meta": c})
    return {"cases": len(cases), "failures": failures, "unstable": [], "hangs": [],
            "groups": {"resample_and_smooth_meta": {"n": len(cases), "agree": len(cases) - len(failures)}}, "samples": [cases[0], cases[1]]}


CHILD_API = r'''
import json, sys, os
sys.path.insert(0, os.environ.get("VERIF_REPO", "/repo"))
import numpy as np
import fteikpy, fteikpy._solver as S, fteikpy._grid as G
cases = json.load(open(sys.argv[1]))
out = []
class Stop(Exception):
    pass
rec = {}
def wrap_solve(*a):
    rec["solve"] = a
    raise Stop()
def wrap_ray(*a):
    rec["ray"] = a
    raise Stop()
hx = lambda v: [float(x).hex() for x in np.ravel(v)]
for c in cases:
    nd = len(c["cells"])
    v = np.array([float.fromhex(x) for x in c["v"]]).reshape(c["cells"])
    E = (fteikpy.Eikonal2D if nd == 2 else fteikpy.Eikonal3D)(v, c["d"], c["o"])
    src = np.array([float.fromhex(x) for x in c["src"]])
    tt = E.solve(src, return_gradient=True)
    r = {"axes": [hx(tt.zaxis), hx(tt.xaxis)] + ([hx(tt.yaxis)] if nd == 3 else []),
         "maxes": [hx(E.zaxis), hx(E.xaxis)] + ([hx(E.yaxis)] if nd == 3 else [])}
    name = "solve2d" if nd == 2 else "solve3d"
    orig = getattr(S, name)
    setattr(S, name, wrap_solve)
    try:
        E.solve(src, c["nsweep"], c["grad"])
    except Stop:
        pass
    setattr(S, name, orig)
    a = rec["solve"]
    r["solve"] = {"slow": hx(a[0]), "d": hx(a[1:1 + nd]), "src": hx(a[1 + nd]), "nsweep": int(a[2 + nd]), "grad": bool(a[3 + nd])}
    rname = "ray2d" if nd == 2 else "ray3d"
    orig = getattr(G, rname)
    setattr(G, rname, wrap_ray)
    kw = {}
    if c["stepsize"] is not None:
        kw["stepsize"] = c["stepsize"]
    if c["max_step"] is not None:
        kw["max_step"] = c["max_step"]
    try:
        tt.raytrace(src, honor_grid=c["honor"], **kw)
    except Stop:
        pass
    setattr(G, rname, orig)
    a = rec["ray"]
    k0 = nd + nd   # axes + gradient grids
    r["ray"] = {"axes": [hx(x) for x in a[:nd]], "src": hx(a[k0 + 1]), "stepsize": float(a[k0 + 2]).hex(), "max_step": int(a[k0 + 3]), "honor": bool(a[k0 + 4])}
    out.append(r)
json.dump(out, open(sys.argv[2], "w"))
'''


def run_api(n, seed, workdir):
    """what the API layer hands to the kernels (axes, slowness, relative source, ray step and budget): hand model
    coq/model/Api.v evaluated on binary64 vs the arguments recorded at the kernel entry points, bit for bit"""
    import gens
    rs = np.random.RandomState(seed)
    cases, terms, layout = [], [], []
    fl = coqeval.flit

    def flist(xs):
        return "[" + "; ".join(fl(x) for x in xs) + "]"

    for it in range(n):
        nd = 2 if rs.rand() < 0.5 else 3
        cells = [int(rs.randint(1, 6)) for _ in range(nd)]
        d = [float(rs.choice(gens.SPACINGS)) for _ in range(nd)]
        o = [float(rs.choice(gens.ORIGINS + [-1e6, 12345.678])) for _ in range(nd)]
        v = rs.uniform(0.5, 4.0, size=cells)
        srel = gens.rand_source_rel(rs, tuple(cells), tuple(d), cls="interior")[0]
        src = [o[a] + srel[a] for a in range(nd)]
        stepsize = None if rs.rand() < 0.4 else float(rs.choice([0.0, 0.3, 1.7]))
        max_step = None if rs.rand() < 0.5 else int(rs.choice([0, 3, 50]))
        honor = bool(rs.rand() < 0.4)
        c = {"cells": cells, "d": d, "o": o, "v": [float(x).hex() for x in v.ravel()], "src": [float(x).hex() for x in src],
             "nsweep": int(rs.choice([1, 2, 3])), "grad": bool(rs.rand() < 0.5), "stepsize": stepsize, "max_step": max_step, "honor": honor}
        cases.append(c)
        shape_nodes = [k + 1 for k in cells]
        for a in range(nd):
            terms.append(f"@axis_nodes float NumF {fl(o[a])} {fl(d[a])} {shape_nodes[a]}%Z")        # traveltime-grid axes
        for a in range(nd):
            terms.append(f"@axis_nodes float NumF {fl(o[a])} {fl(d[a])} {cells[a]}%Z")              # model axes
        terms.append(f"(fun r => fst (fst r) ++ snd (fst r) ++ snd r) (@solve_args float NumF {flist(v.ravel())} {flist(d)} {flist(o)} {flist(src)})")
        st = "None" if stepsize is None else f"(Some {fl(stepsize)})"
        ms = "None" if max_step is None else f"(Some {max_step}%Z)"
        sh = "[" + "; ".join(f"{k}%Z" for k in shape_nodes) + "]"
        terms.append(f"let s := @ray_stepsize float NumF {flist(d)} {st} {'true' if honor else 'false'} in [s; f_ofZ (@ray_max_step float NumF {sh} {flist(d)} s {ms})]")
    os.makedirs(workdir, exist_ok=True)
    cpath, opath, spath = (os.path.join(workdir, x) for x in ("apik_cases.json", "apik_out.json", "apik_child.py"))
    json.dump(cases, open(cpath, "w"))
    open(spath, "w").write(CHILD_API)
    if os.path.exists(opath):
        os.remove(opath)
    p = subprocess.run([impl.PY, spath, cpath, opath], env=impl.env_for("jit"), capture_output=True, text=True, timeout=1200)
    if not os.path.exists(opath):
        return {"cases": len(cases), "failures": [{"kernel": "api", "why": "implementation run failed: " + p.stderr[-1200:], "meta": {}}],
                "unstable": [], "hangs": [], "groups": {}}
    outs = json.load(open(opath))
    hdr = coqeval.HEADER + "From FT.model Require Import Api.\n"
    vals = coqeval.run_terms(terms, os.path.join(workdir, "coq"), header=hdr)
    failures = []
    k = 0
    unhex = lambda l: [float.fromhex(x) for x in l]  # noqa: E731
    for c, o_ in zip(cases, outs):
        nd = len(c["cells"])
        ax_tt = vals[k:k + nd]
        ax_m = vals[k + nd:k + 2 * nd]
        sv = vals[k + 2 * nd]
        rv = vals[k + 2 * nd + 1]
        k += 2 * nd + 2
        why = None
        if [unhex(a) for a in o_["axes"]] != ax_tt or [unhex(a) for a in o_["ray"]["axes"]] != ax_tt:
            why = "traveltime-grid axes differ from origin + spacing * arange(n)"
        elif [unhex(a) for a in o_["maxes"]] != ax_m:
            why = "model axes differ from origin + spacing * arange(n)"
        elif unhex(o_["solve"]["slow"]) + unhex(o_["solve"]["d"]) + unhex(o_["solve"]["src"]) != sv:
            why = "arguments handed to the solver kernel differ from (1/grid, spacing, source - origin)"
        elif o_["solve"]["nsweep"] != c["nsweep"] or o_["solve"]["grad"] != c["grad"]:
            why = "nsweep / return_gradient not passed through"
        elif [float.fromhex(o_["ray"]["stepsize"]), float(o_["ray"]["max_step"])] != rv:
            why = f"ray step/budget {float.fromhex(o_['ray']['stepsize'])}, {o_['ray']['max_step']} differ from the model {rv}"
        elif o_["ray"]["honor"] != c["honor"] or unhex(o_["ray"]["src"]) != unhex(c["src"]):
            why = "honor_grid / source not passed through to the ray kernel"
        if why:
            failures.append({"kernel": "api-layer", "why": why, "meta": {kk: c[kk] for kk in ("cells", "d", "o", "stepsize", "max_step", "honor")}})
    return {"cases": len(cases), "failures": failures, "unstable": [], "hangs": [],
            "groups": {"api_args": {"n": len(cases), "agree": len(cases) - len(failures)}},
            "samples": [{kk: cases[0][kk] for kk in ("cells", "d", "o", "stepsize", "max_step", "honor")}]}


API = {"mesh": run_mesh, "meta": run_meta, "api": run_api}


if __name__ == "__main__":
    print(json.dumps(run_api(10, 3, os.path.join(coqeval.VERIF, "work", "corr_api")), indent=1)[:1500])
    r = run_mesh(12, 3, os.path.join(coqeval.VERIF, "work", "corr_api"))
    print(json.dumps(r, indent=1)[:1500])
