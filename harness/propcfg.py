"""Per-property configuration of the checks."""
import os

SOLVER2 = ["tana2d", "delta", "sweep2d_call", "sweep2d", "fteik2d"]
SOLVER3 = ["tana3d", "sweep3d_call", "sweep3d", "fteik3d"]
INTERP = ["interp2d", "interp3d"]
VINTERP = ["vinterp2d", "vinterp3d"]
RAYS = ["shrink", "ray2d", "ray3d"]
LISTS = ["solve2d_list", "solve3d_list", "interp2d_list", "interp3d_list", "vinterp2d_list", "vinterp3d_list", "ray2d_list", "ray3d_list"]
ALLG = INTERP + VINTERP + SOLVER2 + SOLVER3 + RAYS + LISTS

MODELLED = [
    "modelled, not verified: NumPy/SciPy glue of the API layer (_base/_grid/_solver/_io), Numba's runtime and LLVM code generation, CPython",
]


def P(gen, corr, level, explanation, rule, props=None, corr_n=(8, 60), oracle_n=(60, 600), **kw):
    d = dict(gen=gen, corr=corr, level=level, explanation=explanation, rule=rule, props=props,
             corr_n=corr_n, oracle_n=oracle_n, modelled=MODELLED)
    d.update(kw)
    return d


G2 = ["Common", "Fteik2d"]
G3 = ["Common", "Fteik3d"]
GS = ["Common", "Fteik2d", "Fteik3d"]
GI = ["Common", "Interp2d", "Interp3d"]
GV = ["Common", "Vinterp2d", "Vinterp3d"]
GR = ["Common", "Interp2d", "Interp3d", "FteikCommon", "Ray2d", "Ray3d"]
GALL = ["Common", "Interp2d", "Interp3d", "Vinterp2d", "Vinterp3d", "FteikCommon", "Fteik2d", "Fteik3d", "Ray2d", "Ray3d"]

RULE_SOLVE = ("models from {homogeneous, layered, two half-spaces, linear gradient, log-normal}, shapes 1..N cells per axis, "
              "spacings from {0.1,0.5,1,2,3.7,25} per axis, origins from {0,-64,8,1024,0.3}, sources from the classes node / grid "
              "line / interior / near-line (1 ulp..1e-6 cell) / far boundary / corner / k*spacing; a case is distinct by "
              "(dimension, shape, spacing, model kind, source class) and every generated case is non-trivial (it runs the solver)")

PROPS = {
    "C01": P(GS, SOLVER2 + SOLVER3, "other",
             "Theorems (exact real arithmetic over the generated kernels): t_ana is the analytic time, its derivatives are the "
             "analytic gradient, the spherical operator reproduces the analytic time on analytic neighbours, the plane-wave "
             "operators are exact on plane waves; the off-node 2D source initialisation in a homogeneous medium writes exactly slowness x distance at a characterised set of nodes (InitExact); the global tolerances (near field to rounding, 1.5-2.5% far field in 2D, one "
             "cell in 3D) are examined on the implementation against the analytic distance.", RULE_SOLVE, props="props/C01.v"),
    "C02": P(GS, SOLVER2 + SOLVER3, "other",
             "Theorems: fixed-point edge inequality gives the grid-line upper bound in layered media with the cell registration "
             "(i,j) <-> nodes i..i+1, j..j+1; which cells every operator of the 2D and 3D node update reads (sweep_tt_eq); the four copies of the off-node initialisation read mirror/transposed cells of one another (InitSym). First-order error and "
             "refinement are examined against exact solutions (layer stack sum, Fermat two half-spaces, constant-gradient closed form).",
             "layered stack (node source, equal spacings), two half-spaces in every axis orientation with direct/transmitted/head "
             "waves by 1-D Fermat minimisation, constant velocity gradient (closed form), each on grid h and h/2", props="props/C02.v",
             oracle_n=(45, 300)),
    "C03": P(GS + ["ApiGen"], SOLVER2 + SOLVER3, "proof",
             "Theorems: the solver raises ValueError exactly when the source is outside the closed domain (comparisons as "
             "written, NaN included); result shapes; sweeps never raise a node; over R every traveltime returned by the 2D and by the 3D solver is >= 0 "
             "(all spacings; the 3D statement was false before fix 7b708d7), in 2D 0 occurs exactly at the source node, in 3D dichotomy/partial/refutation in the placeholder regime. "
             "Finite/below-grid-path and the metadata are examined on the implementation on boundary-heavy sources.", RULE_SOLVE, props="props/C03.v"),
    "C04": P(GS, SOLVER2 + SOLVER3, "proof",
             "Theorem (all shapes, every numeric instance incl. binary64 with NaN): at a fixed point of a sweep pass every pair of "
             "adjacent nodes satisfies T_p <= T_q + d*min(slowness of the cells adjoining the edge), hence (R) no node is later than any grid path from any other node; the 4-point operator is never earlier than the "
             "diagonal neighbour and the 8-point candidate is discarded when earlier than the opposite corner (no-op on cubic cells). The global lower bound is "
             "examined on the implementation.", RULE_SOLVE, props="props/C04.v"),
    "C05": P(GS + ["Vinterp2d", "Vinterp3d", "Interp2d", "Interp3d", "FteikCommon", "Ray2d", "Ray3d", "ApiGen"], SOLVER2 + SOLVER3 + VINTERP, "proof",
             "Theorems over R on the generated kernels: slowness- and length-homogeneity of t_ana, t_anad, delta, of one node update, of the "
             "2D source initialisation and of the WHOLE solvers fteik2d / fteik3d (placeholder caveat on the reference run); bit-for-bit power-of-two and 1e-9 general scaling of the whole pipeline are examined on the implementation.",
             RULE_SOLVE + "; scale factors 2^k (k=-9..9) and 10^u (u in [-3,3]), slowness or length", props="props/C05.v", api_corr="api"),
    "C06": P(GS + ["Interp2d", "Interp3d", "Vinterp2d", "Vinterp3d", "ApiGen"], SOLVER2 + SOLVER3 + INTERP + VINTERP, "proof",
             "Theorems: the kernels receive only (coordinate - origin) and the axes origin + k*spacing, the interpolators are "
             "translation invariant over R; bit-for-bit grids for representable translations are examined on the implementation.",
             RULE_SOLVE + "; origins incl. 1e6-scale, single and list calls", props="props/C06.v", oracle_n=(50, 400), api_corr="api"),
    "C07": P(GS + ["ApiGen"], SOLVER2 + SOLVER3, "proof",
             "Theorems (all shapes, every numeric instance incl. binary64 with NaN): one sweep call changes one node and only "
             "downwards; a full sweep pass lowers every node or leaves it; nsweep is the iteration count of one pass function; "
             "strictly decreasing float ranks give convergence after finitely many passes.",
             RULE_SOLVE + "; nsweep = 1..32", props="props/C07.v"),
    "C08": P(GALL + ["ApiGen"], LISTS + ["fteik2d", "interp2d", "vinterp3d", "ray3d"], "proof",
             "Theorems: in the generated model every parallel loop is a map of the per-item kernel over the items in input order "
             "(the translator rejects a parallel loop whose body writes anything but its own output slots or reads them); the "
             "runtime (threads, chunking, backend, concurrent callers) is observed by the oracle: list vs single results bit-for-bit "
             "for thread counts 1..16.",
             "models x list lengths {1,2,threads,threads+1,2*threads+1,5} x thread counts {1,2,3,4,8,max} x (solve, gradient, point "
             "evaluation, rays) + concurrent Python threads", props="props/C08.v", oracle_n=(30, 200)),
    "C09": P(GV + ["ApiGen"], VINTERP, "proof",
             "Theorems over R on the generated apparent-velocity interpolators: fill outside / NaN, 0 at the source, vzero*dist "
             "in the source cell, node values, convex combination bounds, exactness on homogeneous times.",
             "traveltime grids constructed directly (exact homogeneous and perturbed), sources of all classes, query points of the "
             "classes interior/node/face/edge-corner/line/outside/source/near-source", props="props/C09.v", oracle_n=(80, 800)),
    "C10": P(GR + ["ApiGen"], RAYS + INTERP, "proof",
             "Theorems on the generated free-step tracer: never runs out of fuel within the budget, first/last vertex, vertices inside "
             "the hull, buffer index below max_step, RuntimeError iff the budget is exhausted, ValueError iff the end point is outside, consecutive stored "
             "vertices at most one step apart and the last segment short unless the gradient vanishes there (finding F17, refuted unconditionally). "
             "Monotone time, straightness and 'never raises when homogeneous' are examined on the implementation.",
             "models homogeneous/layered/gradient/smoothed log-normal x end points interior/node/face/edge/line/source/near-source x "
             "step sizes x max_step", props="props/C10.v", oracle_n=(50, 400), api_corr="api"),
    "C11": P(GS + ["ApiGen"], SOLVER2 + SOLVER3, "proof",
             "Theorems: the traveltime output of sweep/sweep2d/sweep3d does not depend on the gradient flag or the sign array (bit-level, "
             "source semantics), nor does the whole solver's; over R every gradient vector returned by fteik2d / fteik3d is the zero vector or has norm 1. Zero at the source, direction and the compiled build's "
             "bit-identity are examined on the implementation.", RULE_SOLVE, props="props/C11.v"),
    "C12": P(GALL + ["ApiGen"], ALLG, "proof",
             "Theorems: index obligations (f_ok: every subscript in range, no negative wrap-around) of the generated kernels hold for all shapes and inputs: "
             "the WHOLE solvers fteik2d (binary64: 1..2^50 cells per axis, via Flocq) and fteik3d (binary64 unconditional), node updates, passes, gradient "
             "assembly under the sign invariant, the four interpolators, shrink and both ray tracers, single and list forms; the public API is run under "
             "NUMBA_BOUNDSCHECK=1 on boundary-heavy inputs.",
             RULE_SOLVE + "; point evaluation and both ray modes on faces/edges/corners, tiny max_step", props="props/C12.v",
             mode="boundscheck", oracle_n=(25, 200)),
    "C13": P(GALL + ["ApiGen"], ["fteik2d", "fteik3d", "ray2d", "ray3d", "solve2d_list", "solve3d_list", "ray2d_list", "ray3d_list"], "proof",
             "Theorems: single-item kernels raise ValueError iff outside / RuntimeError iff budget; the list forms raise exactly "
             "what the first failing item raises and otherwise return the map of the items.",
             "offending item at every position of lists of length 2..5, thread counts {1,2,4,max}, outside by 1 ulp / far / NaN on each axis",
             props="props/C13.v", oracle_n=(50, 400), api_corr="api"),
    "C14": P(GI + ["ApiGen"], INTERP, "proof",
             "Theorems over R on the generated interpolators: equal to the textbook multilinear formula inside the hull (hence node "
             "values, convexity, multilinear exactness, continuity across faces, axis-swap equivariance); fill value outside (any instance). "
             "Agreement with SciPy is examined on the implementation.",
             "random fields and multilinear fields on 2..7 nodes per axis, all boundary classes of the hull", props="props/C14.v",
             oracle_n=(80, 800)),
    "C15": P(GR + ["ApiGen"], RAYS + INTERP, "proof",
             "Theorems on the generated grid-honouring tracer: bounded number of iterations (vertex budget times free-step budget), "
             "contract of returned rays, shrink factor in [0,1] attained on a face, every interior vertex of a 2D ray on a grid line and of a 3D ray on a grid plane (R). Straightness, 'always returned when homogeneous' "
             "are examined on the implementation.",
             "models homogeneous/layered/gradient x square and elongated cells x end points on every face/edge/line", props="props/C15.v",
             oracle_n=(50, 400)),
    "C16": P(["ApiGen"], [], "proof",
             "Theorems on the hand model of resample/smooth metadata: new spacing = spacing*old/new, extent preserved, sigma/spacing "
             "invariance; SciPy is a section variable with stated hypotheses. Values/range/constants/monotone and solve-after-edit are "
             "examined on the implementation.",
             "models x new shapes (up/down, per-axis) x linear/nearest x scalar/per-axis sigma x unit changes", props="props/C16.v",
             api_corr="meta", api_n=(20, 120)),
    "C17": P(["Effects", "ApiGen"], [], "proof",
             "Theorems on the effect summary extracted from the API layer (no argument updated in place through any alias, no global rebound, no memoising "
             "decorator, attributes assigned only by constructors / resample / smooth); the content is observed: random API histories on shared, copied "
             "and deep-copied objects with inputs as list/tuple/F-order/strided/float32, interleaved 2D/3D use and raising calls; "
             "arguments compared before/after, identical calls compared bit-for-bit.",
             "histories of 3..7 operations from {solve, list solve, solve with a bad source, other dimension, call, raytrace, "
             "representation change} on {object, re-built object, copy, deepcopy}", oracle_n=(40, 300), props="props/C17.v"),
    "C18": P(GS + ["Interp2d", "Interp3d", "Vinterp2d", "Vinterp3d"], SOLVER2 + INTERP + VINTERP, "proof",
             "Theorems (R): symmetry of the 2D local operators under exchanging axes; the four copies of the 2D source-line initialisation are mirror / "
             "transposition images of one another (InitSym); one 3D node update of the generated code is equivariant under all axis relabellings (Sym3d); "
             "interpolator axis-swap equivariance. Solver-level "
             "equivariance within the discretisation tolerance is examined on the implementation.",
             RULE_SOLVE + "; all axis permutations and mirrorings", props="props/C18.v"),
    "C19": P(GALL, ALLG, "translation_validation",
             "Three-way correspondence: generated Coq model (binary64) vs compiled build vs interpreted source, kernel by kernel, "
             "1e-9 relative and equal branch-level outcomes; flag set and signatures as data.",
             "every jitted kernel x generated inputs (see correspondence groups)", props="props/C19.v", special=True,
             corr_n=(25, 150)),
    "C20": P(["IoGen"], [], "proof",
             "Theorems on the hand model of the mesh index arithmetic: point index bijection, coordinates, data order, cell corner "
             "sets, ray connectivity; the implementation is run with a stand-in meshio module and decoded point by point.",
             "non-cubic shapes, unequal spacings, origins, 0..2 traveltime grids with/without gradients, 1..3 rays", props="props/C20.v",
             api_corr="mesh", api_n=(12, 60)),
}


# session-3 additions to the level texts (theorem families promoted after the first complete pass; DESIGN.md section 9)
API_TIE = ("The API layer (_base.py, _grid.py, _solver.py) is tied by generation as well: tools/py2coq/apigen.py extracts its arithmetic and "
           "wiring on every run (gen/ApiGen.v) and proofs/ApiGenEq.v proves it equal to the hand model.")
EXTRA = {
    "C03": "SourceCell: the reported slowness is that of the cell containing the source (generic index characterisation, closed-cell membership over R, one-rounding bound and refutation of exact membership on binary64). " + API_TIE,
    "C05": "VinterpScale / RayScale: interpolated times and free-step rays scale exactly with both units (every branch, 2D/3D); the grid-honouring mode is refuted below 1e-8 length units per cell (absolute grid magnetism). " + API_TIE,
    "C06": "RayTranslate: rays translate with the frame (exact, both modes, 2D/3D); omitting the origin is the zero vector (extracted). " + API_TIE,
    "C07": API_TIE + " (nsweep reaches the kernel as given)",
    "C08": API_TIE + " (point lists reach the list kernels as given; thread helpers only forward to Numba)",
    "C09": API_TIE,
    "C10": "RayBudget: the step budget only decides between raising and returning - same count and rows for every sufficient budget, exhaustion for every insufficient one (every numeric instance, both modes, 2D/3D, entry points). " + API_TIE,
    "C11": "GradSign / GradSign3d: every returned gradient component is a normalised one-sided difference quotient of the returned grid and its sign follows that difference (whole solvers, 2D/3D). " + API_TIE,
    "C12": "The precondition of the interpolator safety theorems on the API side - axes with one node per sample of the CURRENT shape, recomputed on every access - is extracted from _base.py (ApiGenEq).",
    "C13": "RayBudget: a ray returned with c+1 rows raises RuntimeError for every budget <= c and is returned unchanged for every budget > c. " + API_TIE,
    "C14": API_TIE,
    "C15": "RayBudget as in C10. " + API_TIE,
    "C16": API_TIE + " (resample spacing a*b/c with the old shape read before the grid is replaced; smooth argument sigma/spacing)",
    "C17": "Package surface extracted on every run: exactly 19 files, __init__ files only import and list names, no module-level state or monkeypatching (ApiGenEq).",
    "C18": "VinterpSwap / InterpMirror: the traveltime interpolators under all axis relabellings; mirroring an axis: plain interpolators for every query, traveltime interpolators off the node lines (refuted on them for arbitrary grids).",
    "C19": "The decorator combines options as defaults-override (one accepted shape); default keys are exactly four, so the kernels' own boundscheck=True reaches Numba; the table of explicit signatures is frozen.",
    "C20": "The mesh-export layer is tied by generation as well: tools/py2coq/iogen.py -> gen/IoGen.v, proofs/IoGenEq.v (node coordinates k*d + x0, point/cell numbering, corner order, data order, ray segments with accumulated offsets).",
}
for _k, _v in EXTRA.items():
    PROPS[_k]["explanation"] = PROPS[_k]["explanation"] + " " + _v


def run_special(pid, tier, seed, work, cfg):
    """C19: the correspondence itself is the check; the 'oracle' is the API-level jit-vs-interpreter comparison."""
    import json
    import subprocess
    import impl
    assert pid == "C19"
    n = 30 if tier == "quick" else 200
    outs = {}
    for mode in ("jit", "interp"):
        out = os.path.join(work, f"api_{mode}.json")
        if os.path.exists(out):
            os.remove(out)
        cmd = [impl.PY, os.path.join(os.path.dirname(os.path.abspath(__file__)), "api_pipeline.py"),
               "--seed", str(seed), "-n", str(n), "--out", out]
        subprocess.run(cmd, env=impl.env_for(mode), capture_output=True, text=True, timeout=3000)
        outs[mode] = json.load(open(out)) if os.path.exists(out) else None
    res = {"evaluations": 0, "distinct_nontrivial": 0, "violations": [], "samples": [], "stats": {}}
    if outs["jit"] is None or outs["interp"] is None:
        res["violations"].append({"key": "C19:pipeline-crash", "what": "API pipeline process failed", "replay": {}})
        return res
    import math
    for cj, ci in zip(outs["jit"]["cases"], outs["interp"]["cases"]):
        res["evaluations"] += 1
        res["distinct_nontrivial"] += 1
        if len(res["samples"]) < 3:
            res["samples"].append(cj["desc"])
        if cj["status"] != ci["status"]:
            if cj["desc"].get("kind") == "direct-one-sample-axis" and cj["desc"].get("list_call") and (cj["status"], ci["status"]) == ("SystemError", "IndexError"):
                # known finding F25: an IndexError raised inside the prange region of the list kernel surfaces as SystemError
                res["violations"].append({"key": "C19:one-sample-axis-list-call", "what": "list call on a one-sample axis: compiled raises SystemError, the interpreter IndexError", "replay": cj["desc"]})
                continue
            res["violations"].append({"key": "C19:branch", "what": f"compiled raised/returned {cj['status']} but the interpreter {ci['status']}", "replay": cj["desc"]})
            continue
        if set(cj["values"]) != set(ci["values"]):
            res["violations"].append({"key": "C19:branch", "what": f"compiled produced {sorted(cj['values'])} but the interpreter {sorted(ci['values'])}", "replay": cj["desc"]})
            continue
        for name in cj["values"]:
            a = [float.fromhex(x) for x in cj["values"][name]]
            b = [float.fromhex(x) for x in ci["values"][name]]
            if len(a) != len(b):
                nd_ = cj["desc"]["nd"]
                # known finding F18: a grid-honouring ray can store one or two vertices more or fewer in the compiled
                # build than in the interpreter (a point within the 1e-8 "grid magnetism" of a line, or a shrink factor
                # equal to 1 within rounding, falls on different sides in the two builds)
                dd = cj["desc"]["d"]
                key = "C19:ray-vertex-count-sensitivity" if name.startswith("ray_") and (abs(len(a) - len(b)) <= 2 * nd_ or max(dd) / min(dd) >= 4) else "C19:shape"
                de = cj["desc"]
                on_hull = any(abs(de["src"][k_] - de["o"][k_]) <= 1e-9 * dd[k_] or abs(de["src"][k_] - de["o"][k_] - dd[k_] * de["cells"][k_]) <= 1e-9 * dd[k_]
                              for k_ in range(de["nd"]))
                if name == "ray_True" and (len(a) == 0 or len(b) == 0) and (max(dd) / min(dd) >= 4 or on_hull):
                    # known finding F19: in strongly elongated cells grid-honouring rays exhaust their budget very often
                    # (they stall on grid lines, F15), and whether a given ray does differs between the two builds
                    key = "C19:honor-grid-budget-sensitivity"
                res["violations"].append({"key": key, "what": f"{name}: {len(a) // nd_ if name.startswith('ray') else len(a)} vs {len(b) // nd_ if name.startswith('ray') else len(b)} entries", "replay": cj["desc"]})
                continue
            fin = [abs(x) for x in a + b if math.isfinite(x) and abs(x) < 0.99e5]
            sc = max(fin) if fin else 1.0
            bad = 0
            for x, y in zip(a, b):
                if math.isnan(x) != math.isnan(y):
                    bad += 1
                elif not math.isnan(x) and abs(x - y) > 1e-9 * sc + 4 * math.ulp(max(abs(x), abs(y), 1e-300)):
                    bad += 1
            if bad:
                if name.startswith("gradient") or name.startswith("ray"):
                    # F9 is keyed by the number of NODES whose gradient vector differs (a symmetric model flips the tie at
                    # the two mirror-image nodes together): at most 2 nodes or 5 % of them
                    nd_g = cj["desc"]["nd"]
                    tol_ = lambda x, y: abs(x - y) > 1e-9 * sc + 4 * math.ulp(max(abs(x), abs(y), 1e-300))  # noqa: E731
                    bad_nodes = sum(1 for q in range(0, len(a) - nd_g + 1, nd_g)
                                    if any((math.isnan(a[q + c_]) != math.isnan(b[q + c_])) or (not math.isnan(a[q + c_]) and tol_(a[q + c_], b[q + c_])) for c_ in range(nd_g)))
                    few = bad_nodes <= max(2, (len(a) // nd_g) // 20) if name.startswith("gradient") else True
                    key = "C19:gradient-tie-flip" if few else "C19:gradient"
                    # known finding F23: the gradient is a finite difference of traveltimes; in cells elongated by >= 4:1 the
                    # difference across the thin axis is tiny against the traveltimes themselves, and rounding-size
                    # differences of the traveltimes (within 1e-9) become up to 1e-5 of the unit gradient vector
                    dd_g = cj["desc"]["d"]
                    if not few and name.startswith("gradient") and max(dd_g) / min(dd_g) >= 4 and \
                            max((abs(x - y) for x, y in zip(a, b) if not (math.isnan(x) or math.isnan(y))), default=0.0) <= 1e-5:
                        key = "C19:gradient-cancellation-elongated-cells"
                else:
                    key = f"C19:{name}"
                # known finding F16: the off-node source initialisation is ill-conditioned for sub-cell offsets between
                # ~1e-15 and ~1e-5 of a cell and amplifies the compiled/interpreted rounding differences
                rel = [abs((cj["desc"]["src"][k] - cj["desc"]["o"][k]) / cj["desc"]["d"][k]) for k in range(cj["desc"]["nd"])]
                offs = [abs(r_ - round(r_)) for r_ in rel]
                if cj["desc"]["nd"] == 2 and any(1e-15 < x < 1e-5 for x in offs) and not name.startswith("model"):
                    key = "C19:near-line-source-ill-conditioned"
                res["violations"].append({"key": key, "what": f"{name}: {bad} of {len(a)} values differ beyond 1e-9 between compiled and interpreted runs", "replay": cj["desc"]})
    return res
