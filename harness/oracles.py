"""Implementation-level oracles: the conclusion of each property examined on the real fteikpy
(validation of the model at the level of the theorems' conclusions, and the failing-input search).

Each oracle is `oracle_Cxx(rs, n, ctx)` and returns a Result.  Run through oracle_run.py in a child
process (compiled build unless stated otherwise)."""
import copy
import itertools
import math
import os
import sys

import numpy as np

sys.path.insert(0, os.environ.get("VERIF_REPO", "/repo"))
sys.path.insert(0, os.path.dirname(os.path.abspath(__file__)))
import gens  # noqa: E402

BIG = 1.0e5


class Result:
    def __init__(self):
        self.evaluations = 0
        self.nontrivial = set()
        self.violations = []
        self.samples = []
        self.stats = {}

    def case(self, key, sample=None):
        self.evaluations += 1
        self.nontrivial.add(key)
        if sample is not None and len(self.samples) < 4:
            self.samples.append(sample)

    def bump(self, k, v=1):
        self.stats[k] = self.stats.get(k, 0) + v

    def maxstat(self, k, v):
        self.stats[k] = max(self.stats.get(k, 0.0), float(v))

    def violate(self, key, what, replay):
        if len(self.violations) < 50:
            self.violations.append({"key": key, "what": what, "replay": replay})

    def to_json(self):
        return {"evaluations": self.evaluations, "distinct_nontrivial": len(self.nontrivial),
                "violations": self.violations, "samples": self.samples, "stats": self.stats}


def hexl(a):
    return [float(x).hex() for x in np.ravel(a)]


def model_replay(v, d, o, src, **kw):
    r = {"velocity_shape": list(np.shape(v)), "velocity_hex": hexl(v), "gridsize": [float(x) for x in d],
         "origin": [float(x) for x in o], "source": np.asarray(src, dtype=float).tolist(),
         "source_hex": hexl(src)}
    r.update(kw)
    return r


def eik(nd):
    import fteikpy
    return fteikpy.Eikonal2D if nd == 2 else fteikpy.Eikonal3D


def node_coords(shape_nodes, d, o):
    axes = [o[a] + d[a] * np.arange(shape_nodes[a]) for a in range(len(d))]
    return np.meshgrid(*axes, indexing="ij"), axes


def rand_setup(rs, nd, lo=1, hi=None, aspect=None):
    hi = hi or (12 if nd == 2 else 5)
    cells = gens.rand_shape(rs, nd, lo, hi)
    d = gens.rand_spacing(rs, nd)
    if aspect is not None:
        while max(d) / min(d) > aspect:
            d = gens.rand_spacing(rs, nd)
    o = [float(rs.choice(gens.ORIGINS)) for _ in range(nd)]
    return cells, d, o


def abs_source(o, srel, d=None, cells=None):
    """absolute source coordinates; with (d, cells) the result is nudged so that the implementation's own
    relative coordinate (src - origin) lies in the closed domain [0, d*n] (the exact boundary o + n*d is in
    general not representable, and a coordinate rounded upwards is mathematically outside)."""
    src = np.array([o[a] + srel[a] for a in range(len(o))], dtype=np.float64)
    if d is not None:
        for a in range(len(o)):
            oa = np.float64(o[a])
            while src[a] - oa > d[a] * cells[a]:
                src[a] = math.nextafter(src[a], -math.inf)
            while src[a] - oa < 0.0:
                src[a] = math.nextafter(src[a], math.inf)
    return src


# --------------------------------------------------------------------------------------- C01
def oracle_C01(rs, n, ctx):
    R = Result()
    for it in range(n):
        nd = 2 if rs.rand() < 0.6 else 3
        cells, d, o = rand_setup(rs, nd, 1, 30 if nd == 2 else 12, aspect=2.0 if nd == 2 else None)
        vel = float(rs.choice([0.5, 1.0, 2.0, 3.5, 1500.0]))
        v = np.full(cells, vel)
        srel, scls = gens.rand_source_rel(rs, cells, d)
        # keep only sources whose translation by the origin is exact, so the expected distance is unambiguous
        src = abs_source(o, srel, d, cells)
        nsweep = int(rs.choice([2, 2, 3, 4]))
        rep = model_replay(v, d, o, src, nsweep=nsweep, cls=scls)
        try:
            tt = eik(nd)(v, d, o).solve(src, nsweep=nsweep)
        except Exception as ex:  # noqa: BLE001
            R.case(("exc", nd, scls))
            R.violate("C01:raises", f"solve raised {type(ex).__name__}: {ex}", rep)
            continue
        G, axes = node_coords(tt.shape, d, o)
        srel_eff = src - np.asarray(o)
        dist = np.sqrt(sum((G[a] - o[a] - srel_eff[a]) ** 2 for a in range(nd)))
        exact = dist / vel
        err = np.abs(tt.grid - exact)
        h = max(d)
        R.case((nd, cells, scls, d), {"nd": nd, "cells": list(cells), "d": list(d), "o": o, "src": src.tolist(), "cls": str(scls)})
        if not np.isfinite(tt.grid).all():
            R.violate("C01:nonfinite", "non-finite traveltime", rep)
            continue
        if nd == 2:
            zsi = min(int(srel_eff[0] / d[0]), cells[0] - 1)
            xsi = min(int(srel_eff[1] / d[1]), cells[1] - 1)
            I, J = np.meshgrid(np.arange(tt.shape[0]), np.arange(tt.shape[1]), indexing="ij")
            near = (np.abs(I - zsi) <= 5) & (np.abs(J - xsi) <= 5)
            tol_near = 1e-9 * h / vel
            if (err[near] > tol_near).any():
                k = np.unravel_index(np.argmax(np.where(near, err, 0)), err.shape)
                # known finding F16: a source between ~1e-15 and ~1e-5 of a cell off a grid line is not snapped and
                # the off-node initialisation divides by that sub-cell size; the near field is then exact only to
                # about the offset itself (<= 1e-6 cell) instead of to rounding
                offs = [abs(srel_eff[a] / d[a] - round(srel_eff[a] / d[a])) for a in range(nd)]
                illc = any(1e-15 < x < 1e-5 for x in offs) and err[near].max() <= 1e-6 * h / vel
                key = "C01:near-field-near-line-source-ill-conditioned" if illc else "C01:near-field"
                R.violate(key, f"2D node {k} within 5 cells: |T-d/v|={err[k]:.3e} > {tol_near:.1e}", rep)
            far = ~near
            if far.any():
                rel = err[far] / np.maximum(exact[far], 1e-300)
                R.maxstat("max_far_rel_2d", rel.max())
                # "about one percent for aspect ratios up to 2": measured on the unchanged tree 0.3% (aspect 1),
                # 0.6% (1.5), 2.1% (exactly 2); alarm levels 1.5% up to aspect 1.5 and 2.5% up to 2
                lim = 0.015 if max(d) / min(d) <= 1.5 else 0.025
                if (rel > lim).any():
                    R.violate("C01:far-field", f"2D far-field relative error {rel.max():.4f} > {lim}", rep)
            R.maxstat("max_near_abs_over_h_2d", (err[near] / (h / vel)).max())
        else:
            bound = h / vel
            R.maxstat("max_abs_over_cell_3d", (err / bound).max())
            if (err > bound * (1 + 1e-9)).any():
                k = np.unravel_index(np.argmax(err), err.shape)
                R.violate("C01:3d-cell", f"3D node {k}: |T-d/v|={err[k]:.3e} > one cell {bound:.3e}", rep)
    return R


# --------------------------------------------------------------------------------------- C02
def fermat_two_halfspaces(p, q, pos, s1, s2, axis, nd):
    """first arrival between p and q in two half-spaces split at coordinate `pos` along `axis`
    (slowness s1 below pos, s2 above): direct, transmitted (Snell, by 1-D minimisation) or head wave."""
    p, q = np.asarray(p, float), np.asarray(q, float)
    sp = s1 if p[axis] < pos or (p[axis] == pos and q[axis] <= pos) else s2
    sq = s1 if q[axis] < pos or (q[axis] == pos and p[axis] <= pos) else s2
    dpar = math.sqrt(sum((p[a] - q[a]) ** 2 for a in range(nd) if a != axis))
    hp, hq = abs(p[axis] - pos), abs(q[axis] - pos)
    best = math.inf
    same = (p[axis] - pos) * (q[axis] - pos) >= 0
    if same:
        s = sp if hp > 0 else sq
        if hp == 0 and hq == 0:
            s = min(s1, s2)
        best = s * math.sqrt(dpar ** 2 + (p[axis] - q[axis]) ** 2)
        # head wave along the interface through the faster medium
        so = s2 if s == s1 else s1
        if so < s:
            def t(a, b):
                return s * math.sqrt(hp ** 2 + a ** 2) + so * max(dpar - a - b, 0.0) + s * math.sqrt(hq ** 2 + b ** 2)
            c = so / s
            tan = c / math.sqrt(1 - c * c)
            a, b = hp * tan, hq * tan
            if a + b <= dpar:
                best = min(best, t(a, b))
    else:
        def t(u):
            return sp * math.sqrt(hp ** 2 + u ** 2) + sq * math.sqrt(hq ** 2 + (dpar - u) ** 2)
        lo, hi = 0.0, dpar
        for _ in range(200):
            m1, m2 = lo + (hi - lo) / 3, hi - (hi - lo) / 3
            if t(m1) < t(m2):
                hi = m2
            else:
                lo = m1
        best = t(0.5 * (lo + hi))
    return best


# Two half-spaces are represented exactly by the cell model, so the solver may be late by a first-order amount but
# is early only marginally: worst case on the unchanged tree over 1800 cases 0.30 cell-crossing times.  A constant
# gradient is only sampled at cell centres, so early and late errors are alike there (no early clause).
EARLY_MAX = {"halves": 0.45, "gradient": 9.9}


def oracle_C02(rs, n, ctx):
    R = Result()
    for it in range(n):
        kind = ["layered", "halves", "gradient"][it % 3]
        nd = 2 if rs.rand() < 0.65 else 3
        hi = 16 if nd == 2 else 7
        if kind == "layered":
            # equal spacings, node source: time along the grid line through the source = cumulative sum
            cells = gens.rand_shape(rs, nd, 2, hi)
            h = float(rs.choice(gens.SPACINGS))
            d = tuple([h] * nd)
            o = [float(rs.choice(gens.ORIGINS)) for _ in range(nd)]
            ax = int(rs.randint(nd))
            prof = rs.uniform(1.0, 4.0, size=cells[ax])
            sh = [1] * nd
            sh[ax] = cells[ax]
            v = np.broadcast_to(prof.reshape(sh), cells).copy()
            node = [int(rs.randint(0, cells[a] + 1)) for a in range(nd)]
            src = np.array([o[a] + d[a] * node[a] for a in range(nd)])
            # "node source": the implementation must see an exact node, (src - o)/d == node
            if any((src[a] - o[a]) / d[a] != node[a] or src[a] - o[a] > d[a] * cells[a] for a in range(nd)):
                o = [0.0] * nd
                src = np.array([d[a] * node[a] for a in range(nd)])
                if any(src[a] / d[a] != node[a] or src[a] > d[a] * cells[a] for a in range(nd)):
                    R.bump("layered_skipped_inexact_node")
                    continue
            rep = model_replay(v, d, o, src, kind=kind, axis=ax)
            try:
                tt = eik(nd)(v, d, o).solve(src, nsweep=3)
            except Exception as ex:  # noqa: BLE001
                R.case(("exc", kind))
                R.violate("C02:raises", f"{type(ex).__name__}: {ex}", rep)
                continue
            # exact on the line through the source along `ax`
            idx = list(node)
            expect = np.zeros(cells[ax] + 1)
            for k in range(node[ax] + 1, cells[ax] + 1):
                expect[k] = expect[k - 1] + h / prof[k - 1]
            for k in range(node[ax] - 1, -1, -1):
                expect[k] = expect[k + 1] + h / prof[k]
            sl = [slice(None) if a == ax else node[a] for a in range(nd)]
            got = tt.grid[tuple(sl)]
            # the cumulative sum is an upper bound (a grid path); it is the exact first arrival when the
            # straight vertical path is the fastest, which holds when no neighbouring column is faster: here
            # the model is laterally homogeneous so it holds.
            tol = 1e-12 * max(expect.max(), h)
            R.case((kind, nd, cells, ax), {"kind": kind, "nd": nd, "cells": list(cells), "h": h, "axis": ax, "node": node})
            R.maxstat("layered_max_rel", np.abs(got - expect).max() / max(expect.max(), 1e-300))
            if (np.abs(got - expect) > tol).any():
                k = int(np.argmax(np.abs(got - expect)))
                R.violate("C02:layered-line", f"grid-line time at index {k}: {got[k]!r} vs cumulative sum {expect[k]!r}", rep)
            continue
        cells = gens.rand_shape(rs, nd, 4, hi)
        if nd == 3 and it % 2 == 0:
            # strongly unequal shapes: a clamp written with the wrong axis length is invisible when the lengths agree
            lng = it // 2 % 3
            cells = tuple(int(12 + (it * 7) % 13) if a == lng else cells[a] for a in range(nd))
        d = gens.rand_spacing(rs, nd)
        while max(d) / min(d) > 4:
            d = gens.rand_spacing(rs, nd)
        o = [0.0] * nd
        errs = []
        early = []
        srel, scls = gens.rand_source_rel(rs, cells, d, cls=rs.choice(["node", "interior", "line", "kd"]))
        if kind == "halves":
            ax = int(rs.randint(nd))
            cut = int(rs.randint(1, cells[ax]))
            if rs.rand() < 0.5:
                # interface within three cells of an off-node source, either side: the source initialisation and the
                # first updates then see the contrast (cell registration errors show up here)
                srel = tuple(float(rs.uniform(0.1, cells[a] - 0.1)) * d[a] for a in range(nd))
                scls = "interior-near-interface"
                ks = int(srel[ax] / d[ax])
                cut = int(min(max(ks + rs.randint(-2, 4), 1), cells[ax] - 1))
            v1, v2 = 1.0, float(rs.choice([1.5, 2.0, 4.0]))
            if rs.rand() < 0.5:
                v1, v2 = v2, v1
            params = {"axis": ax, "cut": cut, "v1": v1, "v2": v2}
        else:
            g = rs.uniform(-0.04, 0.04, size=nd)
            v0 = 2.0
            params = {"g": g.tolist(), "v0": v0}
        for ref in (1, 2):
            c2 = tuple(c * ref for c in cells)
            d2 = tuple(x / ref for x in d)
            if kind == "halves":
                idx = np.arange(c2[ax])
                prof = np.where(idx < cut * ref, v1, v2)
                sh = [1] * nd
                sh[ax] = c2[ax]
                v = np.broadcast_to(prof.reshape(sh), c2).astype(float).copy()
            else:
                # velocity sampled at cell centres of a linear field v0 + g.x  (closed form below)
                cen = np.meshgrid(*[(np.arange(c2[a]) + 0.5) * d2[a] for a in range(nd)], indexing="ij")
                v = v0 + sum(g[a] * cen[a] for a in range(nd))
                if v.min() <= 0.2:
                    break
            src = np.array(srel, dtype=float)
            rep = model_replay(v, d2, o, src, kind=kind, refinement=ref, **params)
            try:
                tt = eik(nd)(v, d2, o).solve(src, nsweep=4)
            except Exception as ex:  # noqa: BLE001
                R.violate("C02:raises", f"{type(ex).__name__}: {ex}", rep)
                errs = None
                break
            G, _ = node_coords(tt.shape, d2, o)
            if kind == "halves":
                pos = cut * d[ax]
                exact = np.empty(tt.shape)
                for k in np.ndindex(*tt.shape):
                    q = [G[a][k] for a in range(nd)]
                    exact[k] = fermat_two_halfspaces(src, q, pos, 1 / v1, 1 / v2, ax, nd)
            else:
                gn = float(np.linalg.norm(g))
                vs = v0 + float(np.dot(g, src))
                vq = v0 + sum(g[a] * G[a] for a in range(nd))
                r2 = sum((G[a] - src[a]) ** 2 for a in range(nd))
                if gn < 1e-12:
                    exact = np.sqrt(r2) / v0
                else:
                    exact = np.arccosh(1 + gn * gn * r2 / (2 * vs * vq)) / gn
            smax = float((1 / v).max())
            e = np.abs(tt.grid - exact) / (max(d2) * smax)
            errs.append(float(e.max()))
            early.append(float(((exact - tt.grid) / (max(d2) * smax)).max()))
        if errs is None or len(errs) < 2:
            R.case(("skipped", kind))
            continue
        R.case((kind, nd, cells, d, scls), {"kind": kind, "nd": nd, "cells": list(cells), "d": list(d), "src": list(srel), "err_cells": errs})
        R.maxstat(f"{kind}_max_err_in_cell_times", errs[0])
        R.maxstat(f"{kind}_max_early_in_cell_times", max(early))
        # a first-arrival solver may be late by a first-order amount but is early (faster than the exact first arrival)
        # only marginally: measured worst case on the unchanged tree over thousands of cases is in EARLY_MAX's comment
        if max(early) > EARLY_MAX[kind]:
            R.violate(f"C02:{kind}-early", f"traveltime earlier than the exact first arrival by {max(early):.3f} cell-crossing times (bound {EARLY_MAX[kind]})", rep)
        # first-order bound: error below C cell-crossing times (C fixed from a calibration on the repaired tree)
        C = {"halves": 1.5, "gradient": 2.0}[kind]   # worst cases seen on the unchanged tree: 0.67 and 1.44 (the gradient
        # model is only sampled at cell centres, so its constant also contains the model discretisation)
        if errs[0] > C or errs[1] > C:
            R.violate(f"C02:{kind}-bound", f"error {errs} cell-crossing times exceeds first-order constant {C}", rep)
        # absolute error decreases under refinement: err2*(h/2) < err1*h  (allow the plateau of tiny errors)
        # (errors of a few percent of a cell are at the noise level of where the nodes fall: allow 5% of a fine cell)
        # and the maximum is taken over more nodes on the finer grid: alarm only if the absolute error grows by half)
        if errs[1] * 0.5 > errs[0] * 1.5 + 0.05 * 0.5:
            R.violate(f"C02:{kind}-refine", f"error grows under refinement: {errs[0]}*h -> {errs[1]}*h/2", rep)
    return R


def contrast3d_stage(R, rs, n, pid):
    """3D models with strong contrasts (slowness drawn from {0.2, 1, 3, 8}) on non-cubic cells, plus the stored inputs on
    which the unguarded 8-point operator produced negative traveltimes (fix: see known_findings.json): every traveltime
    is >= 0 and not earlier than the straight line at the smallest slowness by more than one cell (the C01 bound for 3D)."""
    import json as _json
    cases = []
    try:
        for c in _json.load(open(os.path.join(os.path.dirname(os.path.abspath(__file__)), "probes_neg3d.json"))):
            cases.append((1.0 / np.asarray(c["slow"], dtype=float), tuple(c["d"]), np.asarray(c["src"], dtype=float), "probe"))
    except OSError:
        pass
    for _ in range(n):
        cells = tuple(int(x) for x in rs.randint(1, 4, 3))
        v = 1.0 / rs.choice([1.0, 8.0, 0.2, 3.0], size=cells)
        d = tuple(float(x) for x in rs.choice([0.5, 1.0, 2.0, 4.0, 0.25, 8.0], 3))
        if rs.rand() < 0.6:
            src = np.array([rs.randint(0, cells[a] + 1) * d[a] for a in range(3)])
        else:
            src = np.array([rs.rand() * cells[a] * d[a] for a in range(3)])
        cases.append((v, d, src, "contrast"))
    for v, d, src, kind in cases:
        rep = model_replay(v, d, [0.0, 0.0, 0.0], src, kind=kind)
        try:
            g = eik(3)(np.ascontiguousarray(v), d).solve(src, nsweep=3).grid
        except Exception as ex:  # noqa: BLE001
            R.violate(f"{pid}:raises", f"{type(ex).__name__}: {ex}", rep)
            continue
        R.bump("contrast3d_cases")
        if not np.isfinite(g).all() or (g < 0).any():
            k = np.unravel_index(np.argmin(g), g.shape)
            R.violate(f"{pid}:negative-3d", f"3D traveltime {g[k]!r} at node {tuple(int(x) for x in k)}", rep)
            continue
        G, _ = node_coords(g.shape, d, [0.0, 0.0, 0.0])
        dist = np.sqrt(sum((G[a] - src[a]) ** 2 for a in range(3)))
        smin = float((1.0 / v).min())
        defi = (smin * dist - g) / (max(d) * smin)
        R.maxstat("contrast3d_max_lower_deficit_in_cells", float(defi.max()))
        if defi.max() > 1.0 + 1e-9:
            k = np.unravel_index(np.argmax(defi), g.shape)
            R.violate(f"{pid}:faster-than-physics-3d", f"node {tuple(int(x) for x in k)}: T={g[k]!r} earlier than smin*dist by {defi[k]:.2f} cells", rep)


# --------------------------------------------------------------------------------------- C03
def staircase_bound(slow_max, cells, d):
    return slow_max * sum(cells[a] * d[a] for a in range(len(d)))


def oracle_C03(rs, n, ctx):
    R = Result()
    # fixed probe for known finding F11: the placeholder for "not reached yet" is the absolute time 1e5, so a
    # model whose true traveltimes reach 1e5 (here 400 s/m * 300 m) is returned clipped at the placeholder
    vprobe = np.full((3, 3), 1.0 / 400.0)
    tprobe = eik(2)(vprobe, (100.0, 100.0)).solve(np.array([0.0, 0.0])).grid
    R.case(("probe", "sentinel"))
    if tprobe.max() >= 0.99e5 and tprobe.max() < 400.0 * 300.0 * 0.99:
        R.violate("C03:sentinel-1e5", f"traveltimes of 1e5 and above are clipped to the placeholder (max {tprobe.max()!r}, exact {400.0 * 300.0 * 2 ** 0.5:.0f})",
                  model_replay(vprobe, (100.0, 100.0), (0.0, 0.0), [0.0, 0.0]))
    for it in range(n):
        nd = 2 if rs.rand() < 0.65 else 3
        cells, d, o = rand_setup(rs, nd, 1, 14 if nd == 2 else 5)
        v, kind = gens.rand_model(rs, cells)
        cls = rs.choice(["node", "line", "nearline", "far", "corner", "kd", "kd", "interior", "origin"])
        srel, scls = gens.rand_source_rel(rs, cells, d, cls=cls)
        src = abs_source(o, srel, d, cells)
        eff = src - np.asarray(o)
        grad = bool(rs.rand() < 0.3)
        rep = model_replay(v, d, o, src, kind=str(kind), cls=str(scls), return_gradient=grad)
        R.case((nd, cells, d, scls, kind), {"nd": nd, "cells": list(cells), "d": list(d), "o": o, "src": src.tolist(), "cls": str(scls), "kind": str(kind)})
        try:
            tt = eik(nd)(v, d, o).solve(src, return_gradient=grad)
        except Exception as ex:  # noqa: BLE001
            R.violate(f"C03:raises:{type(ex).__name__}", f"solve raised {type(ex).__name__}: {ex}", rep)
            continue
        g = tt.grid
        if tuple(g.shape) != tuple(c + 1 for c in cells):
            R.violate("C03:shape", f"grid shape {g.shape}", rep)
            continue
        if not np.isfinite(g).all():
            R.violate("C03:nonfinite", "non-finite traveltime", rep)
            continue
        if g.min() < 0:
            R.violate("C03:negative", f"negative traveltime {g.min()!r}", rep)
            continue
        bound = staircase_bound(float((1 / v).max()), cells, d) * (1 + 1e-9) + 1e-300
        if g.max() > bound:
            R.violate("C03:above-grid-path", f"traveltime {g.max()!r} above slowest grid path {bound!r}", rep)
        G, axes = node_coords(g.shape, d, o)
        zero = g == 0.0
        if zero.any():
            for k in zip(*np.nonzero(zero)):
                # zero only at a node coinciding with the source (to rounding of the coordinate conversion)
                dist = math.sqrt(sum((o[a] + d[a] * k[a] - src[a]) ** 2 for a in range(nd)))
                if dist > 1e-9 * min(d):
                    R.violate("C03:zero-off-source", f"zero traveltime at node {k}, {dist:.3e} from the source", rep)
        if tuple(tt.gridsize) != tuple(d) or not np.array_equal(tt.origin, np.asarray(o)):
            R.violate("C03:metadata", "spacing/origin not carried", rep)
        if not np.array_equal(np.asarray(tt.source), src):
            R.violate("C03:metadata", "source not carried", rep)
        if it % 3 == 0:
            # the list form carries the same metadata per item
            src2 = abs_source(o, gens.rand_source_rel(rs, cells, d, cls="interior")[0], d, cells)
            try:
                lst = eik(nd)(v, d, o).solve(np.array([src, src2]), return_gradient=grad)  # same flag as the single solve (cf. F6)
                for k_, (t_, s_) in enumerate(zip(lst, (src, src2))):
                    if not (np.array_equal(np.asarray(t_.source), s_) and tuple(t_.gridsize) == tuple(d)
                            and np.array_equal(t_.origin, np.asarray(o)) and tuple(t_.grid.shape) == tuple(c + 1 for c in cells)):
                        R.violate("C03:list-metadata", f"item {k_} of a list solve does not carry the given source / spacing / origin / shape", rep)
                if not np.array_equal(lst[0].grid, g) or float(lst[0]._vzero) != float(tt._vzero):
                    R.violate("C03:list-metadata", "item 0 of a list solve differs from the single solve", rep)
            except Exception as ex:  # noqa: BLE001
                R.violate(f"C03:raises:{type(ex).__name__}", f"list solve raised {type(ex).__name__}: {ex}", rep)
        ci = [min(int(eff[a] / d[a]), cells[a] - 1) for a in range(nd)]
        cands = set()
        for a_ in itertools.product(*[(0, -1, 1) for _ in range(nd)]):
            cc = tuple(min(max(ci[a] + a_[a], 0), cells[a] - 1) for a in range(nd))
            cands.add(float(1.0 / v[cc]))
        if float(tt._vzero) != float(1.0 / v[tuple(ci)]):
            # tolerate the neighbouring cell only when the source is within rounding of the shared face
            onface = any(abs(eff[a] / d[a] - round(eff[a] / d[a])) < 1e-9 for a in range(nd))
            if not (onface and float(tt._vzero) in cands):
                R.violate("C03:vzero", f"vzero {tt._vzero!r} is not the slowness of the source cell {1.0 / v[tuple(ci)]!r}", rep)
    contrast3d_stage(R, np.random.RandomState(rs.randint(0, 2 ** 31 - 1)), max(20, 2 * n), "C03")
    return R


# --------------------------------------------------------------------------------------- C04
def edge_min_slow(slow, a, idx, nd):
    """min slowness over the cells adjoining the edge from node idx to idx+e_a"""
    cells = slow.shape
    rngs = []
    for b in range(nd):
        if b == a:
            rngs.append([idx[b]])
        else:
            rngs.append(sorted({max(idx[b] - 1, 0), min(idx[b], cells[b] - 1)}))
    return min(slow[c] for c in itertools.product(*rngs))


def oracle_C04(rs, n, ctx):
    R = Result()
    for it in range(n):
        nd = 2 if rs.rand() < 0.65 else 3
        cells, d, o = rand_setup(rs, nd, 1, 10 if nd == 2 else 4)
        v, kind = gens.rand_model(rs, cells)
        srel, scls = gens.rand_source_rel(rs, cells, d)
        src = abs_source(o, srel, d, cells)
        rep = model_replay(v, d, o, src, kind=str(kind), cls=str(scls))
        E = eik(nd)(v, d, o)
        try:
            prev = E.solve(src, nsweep=1).grid
            K = None
            for k in range(2, 40):
                cur = E.solve(src, nsweep=k).grid
                if np.array_equal(cur, prev):
                    K = k - 1
                    break
                prev = cur
        except Exception as ex:  # noqa: BLE001
            R.case(("exc", nd))
            R.violate("C04:raises", f"{type(ex).__name__}: {ex}", rep)
            continue
        R.case((nd, cells, d, kind, scls), {"nd": nd, "cells": list(cells), "d": list(d), "kind": str(kind), "converged_after": K})
        if K is None:
            # the edge clause is about converged solutions only (elongated cells can need hundreds of sweeps)
            R.bump("not_converged_within_40_sweeps")
            continue
        R.maxstat("max_sweeps_to_converge", K)
        slow = 1.0 / v
        g = prev
        worst = 0.0
        for a in range(nd):
            for idx in np.ndindex(*[g.shape[b] - (1 if b == a else 0) for b in range(nd)]):
                nb = tuple(idx[b] + (1 if b == a else 0) for b in range(nd))
                lim = d[a] * edge_min_slow(slow, a, idx, nd)
                diff = abs(g[idx] - g[nb])
                slack = 8 * np.spacing(max(abs(g[idx]), abs(g[nb]), lim))
                worst = max(worst, (diff - lim) / max(lim, 1e-300))
                if diff > lim + slack:
                    R.violate("C04:edge", f"edge {idx}->{nb}: |dT|={diff!r} > d*smin={lim!r}", rep)
                    break
        R.maxstat("max_edge_excess_rel", worst)
        lower_bound_clause(R, g, v, d, o, src, nd, rep)
    # first clause on larger grids (no need to iterate to the fixed point): errors that grow with distance show up
    # only far from the source
    for it in range(max(4, n // 3)):
        nd = 2 if rs.rand() < 0.5 else 3
        cells, d, o = rand_setup(rs, nd, 6, 24 if nd == 2 else 9)
        v, kind = gens.rand_model(rs, cells)
        srel, scls = gens.rand_source_rel(rs, cells, d)
        src = abs_source(o, srel, d, cells)
        rep = model_replay(v, d, o, src, kind=str(kind), cls=str(scls), clause="lower-bound")
        try:
            g = eik(nd)(v, d, o).solve(src, nsweep=3).grid
        except Exception as ex:  # noqa: BLE001
            R.violate("C04:raises", f"{type(ex).__name__}: {ex}", rep)
            continue
        R.case((nd, cells, d, kind, scls, "lb"), None)
        lower_bound_clause(R, g, v, d, o, src, nd, rep)
    # homogeneous 3D, moderately unequal spacings, 14 cells per axis: a wrong pairing of the spacing factors inside the 3D
    # operator is bit-identical for equal spacings and stays within one cell on small grids, but grows with distance
    rs3 = np.random.RandomState(rs.randint(0, 2 ** 31 - 1))
    for it in range(3):
        d3 = [(1.0, 2.0, 1.0), (2.0, 1.0, 1.5), (1.0, 1.0, 2.0), (0.5, 1.0, 0.75), (1.5, 1.0, 1.0), (1.0, 1.5, 2.0)][int(rs3.randint(6))]
        cells = (14, 14, 14)
        v = np.full(cells, float(rs3.uniform(0.5, 4.0)))
        o = [0.0, 0.0, 0.0]
        corner = [float(rs3.choice([0.0, cells[a] * d3[a]])) for a in range(3)]
        src = np.array(corner if rs3.rand() < 0.7 else [cells[a] * d3[a] * rs3.rand() for a in range(3)])
        rep = model_replay(v, d3, o, src, kind="homog", cls="corner/interior", clause="lower-bound-3d-unequal")
        try:
            g = eik(3)(v, d3, o).solve(src, nsweep=2).grid
        except Exception as ex:  # noqa: BLE001
            R.violate("C04:raises", f"{type(ex).__name__}: {ex}", rep)
            continue
        R.case((3, cells, d3, "homog", "lb3"), None)
        lower_bound_clause(R, g, v, d3, o, src, 3, rep)
    contrast3d_stage(R, np.random.RandomState(rs.randint(0, 2 ** 31 - 1)), max(20, 2 * n), "C04")
    return R


def lower_bound_clause(R, g, v, d, o, src, nd, rep):
    """never faster than the straight line at the smallest slowness (discretisation tolerance as documented for
    homogeneous media, C01: 2.5% in 2D for aspect ratios up to 2, otherwise one cell along its longest side)"""
    slow = 1.0 / v
    G, _ = node_coords(g.shape, d, o)
    dist = np.sqrt(sum((G[a] - src[a]) ** 2 for a in range(nd)))
    smin = float(slow.min())
    lower = smin * dist
    if nd == 2 and max(d) / min(d) <= 2:
        # 2.5% far from the source; near it (and in heterogeneous media) the error is first order: half the time to
        # cross a cell at the smallest slowness (C02's bounds are 0.75-1.5 cells at the largest slowness)
        tol = np.maximum(0.025 * lower, 0.5 * max(d) * smin)
    elif nd == 2:
        # no number is documented for 2D cells elongated beyond 2:1; measured: the first plane-wave update outside the
        # 5-cell box loses up to 1.008 cells (aspect 50, any grid size, not growing with distance) -> one cell + 5 %
        tol = 1.05 * max(d) * smin
    else:
        tol = max(d) * smin * (1 + 1e-9)
    if (g < lower - tol).any():
        k = np.unravel_index(np.argmax(lower - tol - g), g.shape)
        R.violate("C04:faster-than-physics", f"node {tuple(int(x) for x in k)}: T={g[k]!r} < smin*dist={lower[k]!r} (tolerance {float(np.ravel(tol)[0]) if np.ndim(tol) == 0 else float(tol[k]):.3e})", rep)
    R.maxstat("max_lower_violation_in_cell_times", float(((lower - g) / (max(d) * smin)).max()))


    return R


# --------------------------------------------------------------------------------------- C05
def oracle_C05(rs, n, ctx):
    R = Result()
    for it in range(n):
        nd = 2 if rs.rand() < 0.65 else 3
        cells, d, o = rand_setup(rs, nd, 1, 10 if nd == 2 else 4)
        v, kind = gens.rand_model(rs, cells)
        pow2 = rs.rand() < 0.5
        c = float(2.0 ** rs.randint(-9, 10)) if pow2 else float(10 ** rs.uniform(-3, 3))
        which = str(rs.choice(["slowness", "length"]))
        # a general factor perturbs the coordinates by rounding: sources on (or within rounding of) a grid
        # line may then fall into the neighbouring cell, which legitimately changes the source cell, so only
        # interior sources are compared for general c; powers of two transform every quantity exactly
        srel, scls = gens.rand_source_rel(rs, cells, d, cls=None if pow2 else "interior")
        o_r = [float(x) for x in o]
        src = abs_source(o_r, srel, d, cells)
        rep = model_replay(v, d, o_r, src, kind=str(kind), cls=str(scls), c=c, which=which)
        # the solver's placeholder for "not yet reached" is the absolute time 1e5 (finding F11): both unit
        # systems must keep every traveltime well below it
        tmax = staircase_bound(float((1 / v).max()), cells, d)
        if tmax * max(c, 1.0) > 1e3:
            R.bump("skipped_times_near_sentinel")
            continue
        try:
            a = eik(nd)(v, d, o_r).solve(src, return_gradient=True)
            if which == "slowness":
                b = eik(nd)(v / c, d, o_r).solve(src, return_gradient=True)
                d2, o2 = d, o_r
            else:
                d2 = tuple(x * c for x in d)
                o2 = [x * c for x in o_r]
                src2 = src * c if pow2 else abs_source(o2, [(src[a_] - o_r[a_]) * c for a_ in range(nd)], d2, cells)
                if pow2 and not (np.array_equal(np.asarray(src2) / c, src) and all(x2 / c == x for x2, x in zip(d2, d))
                                 and all(x2 / c == x for x2, x in zip(o2, o_r))
                                 and np.array_equal((np.asarray(src2) - np.asarray(o2)) / c, np.asarray(src) - np.asarray(o_r))):
                    # a power of two does not scale the inputs exactly (subnormal coordinate underflows): no premise
                    R.bump("skipped_pow2_scaling_inexact_on_inputs")
                    continue
                b = eik(nd)(v, d2, o2).solve(src2, return_gradient=True)
        except Exception as ex:  # noqa: BLE001
            R.case(("exc", which))
            R.violate("C05:raises", f"{type(ex).__name__}: {ex}", rep)
            continue
        R.case((nd, cells, d, which, c, scls), {"nd": nd, "cells": list(cells), "d": list(d), "which": which, "c": c, "cls": str(scls)})
        ga, gb = a.grid * c, b.grid
        scale = np.abs(gb).max()
        rel = float(np.abs(ga - gb).max() / max(scale, 1e-300))
        R.maxstat("max_rel_diff_pow2" if pow2 else "max_rel_diff_general", rel)
        if pow2:
            if not np.array_equal(ga, gb):
                # known finding F10: the absolute sentinel Big=1e5 leaks rounding noise of size ulp(Big) ~ 1.5e-11
                # (absolute) where an operator consumed two uninitialised neighbours; anything larger is new
                # the noise is absolute in the unit system of the run it arose in: at most 64 ulp(Big) in b's units, or
                # 64 ulp(Big) * c when it arose in a's run and was scaled by c for the comparison
                absd = float(np.abs(ga - gb).max())
                noise = 64 * 1.4551915228366852e-11 * max(1.0, c)
                key = "C05:pow2-sentinel-noise" if (absd <= noise or rel <= 1e-9) else f"C05:{which}-pow2"
                R.violate(key, f"power-of-two scaling ({which}, c={c}): max rel diff {rel:.3e} (must be 0)", dict(rep, rel=rel))
        elif rel > 1e-9:
            R.violate(f"C05:{which}-rel", f"scaling ({which}, c={c}): max rel diff {rel:.3e} > 1e-9", rep)
        vz = a._vzero * (c if which == "slowness" else 1.0)
        if abs(vz - b._vzero) > 1e-12 * abs(b._vzero):
            R.violate(f"C05:{which}-vzero", "source-cell slowness does not scale", rep)
        # gradient directions unchanged (bit-for-bit when the grids are; otherwise ties may resolve differently
        # at isolated nodes, so compare where the traveltimes agree to 1e-12 and count the rest)
        if pow2 and np.array_equal(ga, gb):
            if not np.array_equal(a._gradient, b._gradient):
                R.violate(f"C05:{which}-gradient", "gradient grids differ although traveltimes scale exactly", rep)
        else:
            dg = np.abs(a._gradient - b._gradient).max(axis=-1)
            R.maxstat("frac_nodes_gradient_changed", float((dg > 1e-6).mean()))
            if (dg > 1e-6).mean() > 0.25:
                R.violate(f"C05:{which}-gradient", f"gradient directions change at {(dg > 1e-6).mean():.0%} of the nodes", rep)
        if which == "length":
            G, axes = node_coords(a.shape, d, o_r)
            pts = np.array([[rs.uniform(ax[0], ax[-1]) for ax in axes] for _ in range(4)]
                           + [gens.query_point(rs, axes, cls=cl)[0] for cl in ("face", "edgecorner", "node")])
            _, axes2 = node_coords(b.shape, d2, o2)
            pts2 = np.array([[min(max(p[a_] * c, axes2[a_][0]), axes2[a_][-1]) for a_ in range(nd)] for p in pts])
            try:
                ta, tb = a(pts), b(pts2)
            except Exception as ex:  # noqa: BLE001
                R.violate(f"C05:interp-raises:{type(ex).__name__}", f"point evaluation raised {type(ex).__name__}: {ex}", dict(rep, points_hex=hexl(pts)))
                continue
            ok = ~np.isnan(ta) & ~np.isnan(tb)
            # values interpolated from grids that differ (finding F10, reported above) inherit that difference
            gdiff = float(np.abs(ga - gb).max())
            if ok.any() and np.abs(ta * c - tb)[ok].max() > 1e-9 * max(np.abs(tb[ok]).max(), 1e-300) + 1e-12 * scale + 4 * gdiff:
                R.violate("C05:length-interp", f"interpolated times do not scale with length ({np.abs(ta * c - tb)[ok].max():.3e})", rep)
    # absolute-tolerance probe: a test of the form |x - line| < tol (tol in LENGTH units, the values people write by hand:
    # 1e-5 .. 1e-8) in the Python layer or in a kernel puts a source on the grid line in one unit system and not in another.
    # Two unit systems a factor 2^10 apart (exact): offset 300*tol seen from the small system is 0.29*tol, offset 0.3*tol
    # seen from the large one is 307*tol.  Powers of two: the grids must agree bit for bit, up to the sentinel noise F10
    # (absolute ~1e-9 in the smaller system, which is why tolerances below ~3e-9 cannot be told apart from it).
    for k_t, tol in enumerate([1e-5, 1e-6, 1e-7, 1e-8]):
        nd = 2 + (k_t + n) % 2
        cells = (3, 4) if nd == 2 else (2, 3, 2)
        v = np.broadcast_to(np.array([1.0, 1.5, 2.5, 1.25][:cells[1]]).reshape((1, -1) + (1,) * (nd - 2)), cells).copy()
        d = (1.0,) * nd
        for o_r in ([0.0] * nd, [8.0] + [-2.0] * (nd - 1)):
            for off, c in ((300.0 * tol, 2.0 ** -10), (0.3 * tol, 2.0 ** 10)):
                src = np.array([o_r[a_] + (1.0 + off if a_ == 1 else min(0.5 + a_, cells[a_] - 0.5)) for a_ in range(nd)])
                d2, o2, src2 = tuple(x * c for x in d), [x * c for x in o_r], src * c
                if not np.array_equal((src2 - np.asarray(o2)) / c, src - np.asarray(o_r)):
                    continue
                rep = model_replay(v, d, o_r, src, kind="layered", cls="abs-tolerance-probe", c=c, which="length", tol=tol)
                try:
                    a = eik(nd)(v, d, o_r).solve(src)
                    b = eik(nd)(v, d2, o2).solve(src2)
                except Exception as ex:  # noqa: BLE001
                    R.violate("C05:raises", f"{type(ex).__name__}: {ex}", rep)
                    continue
                R.case((nd, "probe", tol, c, tuple(o_r)), None)
                ga, gb = a.grid * c, b.grid
                if not np.array_equal(ga, gb):
                    absd = float(np.abs(ga - gb).max())
                    rel = absd / max(float(np.abs(gb).max()), 1e-300)
                    noise = 64 * 1.4551915228366852e-11 * max(1.0, c)
                    key = "C05:pow2-sentinel-noise" if absd <= noise else "C05:length-pow2"
                    R.violate(key, f"power-of-two length scaling (c={c}) of a source {off:g} length units off a grid line: max rel diff {rel:.3e}, abs {absd:.3e} (must be 0)", dict(rep, rel=rel))
    return R


# --------------------------------------------------------------------------------------- C06
def oracle_C06(rs, n, ctx):
    R = Result()
    for it in range(n):
        nd = 2 if rs.rand() < 0.65 else 3
        cells, d, _ = rand_setup(rs, nd, 1, 9 if nd == 2 else 4)
        v, kind = gens.rand_model(rs, cells)
        o = [float(rs.choice([-64.0, 8.0, 1024.0, 0.3, -1e6, 12345.678])) for _ in range(nd)]
        if rs.rand() < 0.2:
            # the far corner of the model at (or one cell short of) the coordinate zero
            k0 = int(rs.randint(0, 2))
            o = [-(cells[a] + k0) * d[a] for a in range(nd)]
        multi = rs.rand() < 0.5
        nsrc = int(rs.randint(2, 4)) if multi else 1
        srels = [np.array(gens.rand_source_rel(rs, cells, d)[0]) for _ in range(nsrc)]
        srcs0 = np.array(srels)
        srcs1 = srcs0 + np.asarray(o)
        representable = bool(np.array_equal(srcs1 - np.asarray(o), srcs0))
        inside = all(0 <= (s1 - np.asarray(o))[a] <= d[a] * cells[a] for s1 in srcs1 for a in range(nd))
        if not inside:
            continue
        rep = model_replay(v, d, o, srcs1, kind=str(kind), representable=representable)
        try:
            E0 = eik(nd)(v, d)
            E0z = eik(nd)(v, d, np.zeros(nd))
            E1 = eik(nd)(v, d, o)
            a0 = E0.solve(srcs0 if multi else srcs0[0], return_gradient=True)
            az = E0z.solve(srcs0 if multi else srcs0[0], return_gradient=True)
            a1 = E1.solve(srcs1 if multi else srcs1[0], return_gradient=True)
        except Exception as ex:  # noqa: BLE001
            R.case(("exc", nd))
            R.violate("C06:raises", f"{type(ex).__name__}: {ex}", rep)
            continue
        A0 = a0 if multi else [a0]
        AZ = az if multi else [az]
        A1 = a1 if multi else [a1]
        R.case((nd, cells, d, tuple(o), multi, representable), {"nd": nd, "cells": list(cells), "d": list(d), "o": o, "multi": multi, "representable": representable})
        for k_, (t0, tz, t1) in enumerate(zip(A0, AZ, A1)):
            if not np.array_equal(np.asarray(t1.source), srcs1[k_]) or not np.array_equal(np.asarray(t0.source), srcs0[k_]):
                R.violate("C06:source-carried", f"traveltime grid {k_} does not carry the source it was solved for", rep)
            if not np.array_equal(np.asarray(t1.origin), np.asarray(o, dtype=float)):
                R.violate("C06:origin-carried", f"traveltime grid {k_} does not carry the model origin", rep)
            if not (np.array_equal(t0.grid, tz.grid) and np.array_equal(t0._gradient, tz._gradient)):
                R.violate("C06:none-vs-zero", "origin=None differs from the zero vector", rep)
            size = sum(cells[a] * d[a] for a in range(nd))
            if representable:
                if not np.array_equal(t0.grid, t1.grid):
                    R.violate("C06:grid-bits", f"traveltime grids differ (max {np.abs(t0.grid - t1.grid).max():.3e}) although the translated source is exact", rep)
                if not np.array_equal(t0._gradient, t1._gradient):
                    R.violate("C06:gradient-bits", "gradient grids differ although the translated source is exact", rep)
                if t0._vzero != t1._vzero:
                    R.violate("C06:vzero", "source-cell slowness differs", rep)
            else:
                sc = max(np.abs(t0.grid).max(), 1e-300)
                R.maxstat("max_rel_diff_nonrepresentable", np.abs(t0.grid - t1.grid).max() / sc)
            # interpolation and rays
            G, axes0 = node_coords(t0.shape, d, [0.0] * nd)
            pts0 = np.array([[rs.uniform(ax[0], ax[-1]) for ax in axes0] for _ in range(5)])
            pts1 = pts0 + np.asarray(o)
            v0, v1 = t0(pts0), t1(pts1)
            sc = max(np.nanmax(np.abs(v0)), 1e-300)
            inside_mask = ~np.isnan(v1) & ~np.isnan(v0)
            if representable and inside_mask.any():
                # allowance for the rounding of (p + o) itself: one ulp of the largest coordinate, as a time
                coord_err = 4.5e-16 * max(abs(x) for x in o) * float((1.0 / v).max())
                tolv = 1e-9 * sc + 4 * coord_err
                if np.abs(v0 - v1)[inside_mask].max() > tolv:
                    # known finding F20: a source within 1e-5 of a cell of a node (not on it) makes the apparent velocity
                    # distance/time at that node ill-conditioned; the two frames round the tiny offset differently and
                    # values interpolated in the cells around the source then differ by up to ~1e-3 relative
                    offs = [abs(srcs0[k_][a] / d[a] - round(srcs0[k_][a] / d[a])) for a in range(nd)]
                    illc = all(x < 1e-5 for x in offs) and any(x > 0 for x in offs) and np.abs(v0 - v1)[inside_mask].max() <= 1e-3 * sc
                    R.violate("C06:interp-near-node-source-ill-conditioned" if illc else "C06:interp",
                              f"interpolated values differ by {np.abs(v0 - v1)[inside_mask].max():.3e} > {tolv:.3e}", rep)
            # rays: the translated end point gives the translated ray (default step and budget, free and grid-honouring)
            if representable and k_ == 0:
                for q0 in pts0[:2]:
                    q1 = q0 + np.asarray(o)
                    if not np.array_equal(q1 - np.asarray(o), q0):
                        continue
                    hg = bool(rs.rand() < 0.4)
                    outs = []
                    for t_, q_ in ((t0, q0), (t1, q1)):
                        try:
                            outs.append(("ok", np.asarray(t_.raytrace(q_, honor_grid=hg))))
                        except Exception as ex:  # noqa: BLE001
                            outs.append(("exc", type(ex).__name__))
                    R.bump("rays_compared")
                    rrep = dict(rep, end_point_hex=hexl(q1), honor_grid=hg)
                    if outs[0][0] != outs[1][0] or (outs[0][0] == "exc" and outs[0][1] != outs[1][1]):
                        # known finding F19 (there for compiled vs interpreted): in cells elongated >= 4:1 grid-honouring rays
                        # stall on grid lines (F15) depending on the sign of a gradient component that is zero up to
                        # rounding, so whether the budget is exhausted changes with the rounding of translated coordinates
                        budget_flip = hg and max(d) / min(d) >= 4 and {outs[0][0], outs[1][0]} == {"ok", "exc"} and \
                            "RuntimeError" in (outs[0][1] if outs[0][0] == "exc" else outs[1][1])
                        R.violate("C06:honor-grid-budget-sensitivity" if budget_flip else "C06:ray-outcome", f"ray outcome changes with the origin: {outs[0][0]}/{outs[0][1] if outs[0][0] == 'exc' else len(outs[0][1])} vs {outs[1][0]}/{outs[1][1] if outs[1][0] == 'exc' else len(outs[1][1])}", rrep)
                        continue
                    if outs[0][0] == "exc":
                        R.bump("rays_both_raise")
                        continue
                    r0, r1 = outs[0][1], outs[1][1] - np.asarray(o)
                    tolr = 1e-9 * size + 64 * 2.3e-16 * max(abs(x) for x in o)
                    m_ = min(len(r0), len(r1))
                    if abs(len(r0) - len(r1)) > 1:
                        # F21 again: the zigzag in elongated cells also shifts the number of steps by a few
                        fewsteps = max(d) / min(d) > 4 and abs(len(r0) - len(r1)) <= max(2, 0.05 * len(r0))
                        R.violate("C06:ray-sensitivity-elongated-cells" if fewsteps else "C06:ray-length", f"translated ray has {len(r1)} vertices, the original {len(r0)}", rrep)
                    elif m_ and np.abs(r0[:m_ - 1] - r1[:m_ - 1]).max(initial=0.0) > tolr:
                        dev = float(np.abs(r0[:m_ - 1] - r1[:m_ - 1]).max())
                        # known finding F21: in cells elongated by more than 4:1 a free-step ray zigzags between the
                        # faces of the thin axis over hundreds of steps and amplifies the rounding of the translated
                        # coordinates (identical gradient grids) to ~1e-4 of the model size
                        sens = max(d) / min(d) > 4 and dev <= 1e-2 * size
                        R.violate("C06:ray-sensitivity-elongated-cells" if sens else "C06:ray", f"translated ray differs by {dev:.3e} > {tolr:.3e} ({len(r0)} vertices, aspect {max(d) / min(d):.0f})", rrep)
                    elif len(r0) != len(r1):
                        R.bump("rays_vertex_count_differs_by_one")
    return R


# --------------------------------------------------------------------------------------- C07
def oracle_C07(rs, n, ctx):
    R = Result()
    for it in range(n):
        nd = 2 if rs.rand() < 0.65 else 3
        cells, d, o = rand_setup(rs, nd, 1, 10 if nd == 2 else 4)
        v, kind = gens.rand_model(rs, cells)
        srel, scls = gens.rand_source_rel(rs, cells, d)
        src = abs_source(o, srel, d, cells)
        rep = model_replay(v, d, o, src, kind=str(kind), cls=str(scls))
        E = eik(nd)(v, d, o)
        K = int(ctx.get("kmax", 32))
        try:
            grids = [E.solve(src, nsweep=k).grid for k in range(1, K + 1)]
        except Exception as ex:  # noqa: BLE001
            R.case(("exc", nd))
            R.violate("C07:raises", f"{type(ex).__name__}: {ex}", rep)
            continue
        R.case((nd, cells, d, kind, scls), {"nd": nd, "cells": list(cells), "d": list(d), "kind": str(kind), "cls": str(scls)})
        fixed = None
        for k in range(1, K):
            a, b = grids[k - 1], grids[k]
            if not (b <= a).all():
                idx = np.unravel_index(np.argmax(b - a), a.shape)
                R.violate("C07:increase", f"node {idx} increases from nsweep={k} ({a[idx]!r}) to {k + 1} ({b[idx]!r})", rep)
                break
            if fixed is None and np.array_equal(a, b):
                fixed = k
            if fixed is not None and not np.array_equal(a, b):
                R.violate("C07:leaves-fixed-point", f"grid changes again after the fixed point reached at nsweep={fixed}", rep)
                break
        if fixed is None:
            # finitely many sweeps always suffice (theorem sweeps_converge); "single digits in practice" is
            # examined for ordinary cells only: aspect ratios above 4 can need hundreds of sweeps
            R.bump("not_converged_within_K")
            if max(d) / min(d) <= 4:
                R.violate("C07:no-convergence", f"no fixed point within {K} sweeps (aspect ratio {max(d) / min(d):.1f})", rep)
        else:
            R.maxstat("max_sweeps_to_fixed_point", fixed)
    return R
