"""Evaluate generated-model kernels on the binary64 instance inside Coq (vm_compute).

A case is (kernel id, argument list).  Each case becomes one `Eval vm_compute` whose value is a
flat `list float` (see coq/lib/RunF.v); Coq prints floats in an unambiguous 17-digit form, which
is parsed back exactly.
"""
import json
import math
import os
import re
import subprocess
import tempfile
from concurrent.futures import ThreadPoolExecutor

VERIF = os.path.dirname(os.path.dirname(os.path.abspath(__file__)))
COQ = os.path.join(VERIF, "coq")
QFLAGS = ["-Q", "lib", "FT.lib", "-Q", "gen", "FT.gen", "-Q", "model", "FT.model",
          "-Q", "proofs", "FT.proofs", "-Q", "props", "FT.props"]


def load_sigs():
    return json.load(open(os.path.join(COQ, "gen", "sigs.json")))


def flit(x):
    x = float(x)
    if math.isnan(x):
        return "nan"
    if math.isinf(x):
        return "infinity" if x > 0 else "neg_infinity"
    if x == 0.0:
        return "(-0)%float" if math.copysign(1.0, x) < 0 else "0%float"
    h = x.hex()
    if h.startswith("-"):
        return f"(-{h[1:]})%float"
    return f"{h}%float"


def zlit(n):
    n = int(n)
    return f"{n}%Z" if n >= 0 else f"({n})%Z"


def arr_lit(shape, data, elt):
    sh = "[" + "; ".join(zlit(d) for d in shape) + "]"
    if elt == "flt":
        items = "; ".join(flit(v) for v in data)
        return f"(@mkarr float {sh} [{items}])"
    if elt == "int":
        items = "; ".join(zlit(v) for v in data)
        return f"(@mkarr Z {sh} [{items}])"
    raise ValueError(elt)


def arg_lit(ty, v):
    if ty == "flt":
        return flit(v)
    if ty == "int":
        return zlit(v)
    if ty == "bool":
        return "true" if v else "false"
    if isinstance(ty, dict) and "arr" in ty:
        import numpy as np
        a = np.asarray(v)
        return arr_lit(a.shape, a.ravel(order="C").tolist(), ty["arr"])
    if isinstance(ty, dict) and "tup" in ty:
        return "(" + ", ".join(arg_lit(t, x) for t, x in zip(ty["tup"], v)) + ")"
    raise ValueError(ty)


def proj(k, n, s):
    if n == 1:
        return s
    t = s
    if k == 0:
        for _ in range(n - 1):
            t = f"(fst {t})"
        return t
    for _ in range(n - 1 - k):
        t = f"(fst {t})"
    return f"(snd {t})"


def enc_fun(ty):
    """Coq function text : <ty> -> list float"""
    if ty == "flt":
        return "encF"
    if ty == "int":
        return "encZ"
    if ty == "bool":
        return "encB"
    if isinstance(ty, dict) and "arr" in ty:
        return {"flt": "encAF", "int": "encAZ", "bool": "encAB"}[ty["arr"]]
    if isinstance(ty, dict) and "tup" in ty:
        n = len(ty["tup"])
        if n == 0:
            return "(fun _ => [])"
        parts = [f"{enc_fun(t)} {proj(k, n, 'u')}" for k, t in enumerate(ty["tup"])]
        return "(fun u => " + " ++ ".join(parts) + ")"
    if isinstance(ty, dict) and "list" in ty:
        return f"(encL {enc_fun(ty['list'])})"
    raise ValueError(ty)


def case_term(sig, args, fuel=20000, ok=None):
    """Coq term of type list float for one case. ok=(wI,wD) evaluates f_ok instead."""
    name = f"{sig['coq_module']}.{sig['coq_name']}"
    texts = [arg_lit(t, v) for (p, t), v in zip(sig["params"], args)]
    fu = f"(Z.to_nat {fuel}%Z) " if sig["needs_fuel"] else ""
    if ok is not None:
        wi, wd = ("true" if b else "false" for b in ok)
        return f"encB (@{name}_ok float NumF {wi} {wd} {fu}" + " ".join(texts) + ")"
    call = f"(@{name} float NumF {fu}" + " ".join(texts) + ")"
    e = enc_fun(sig["ret"])
    if sig["can_raise"]:
        return f"encR {e} {call}"
    return f"{e} {call}"


HEADER = """From Coq Require Import ZArith List Bool PrimFloat.
From FT.lib Require Import Num Arr NumArr RunF.
From FT.gen Require Import Common Interp2d Interp3d Vinterp2d Vinterp3d FteikCommon Fteik2d Fteik3d Ray2d Ray3d.
Import ListNotations.
Open Scope Z_scope.
"""

TOK = re.compile(r"nan|neg_infinity|infinity|[-+]?[0-9][0-9.]*(?:e[-+]?[0-9]+)?|\[|\]")


def parse_blocks(out):
    """Split coqc output into the `= ... : list float` blocks and parse each into a list of floats."""
    blocks = re.split(r"^\s*=\s", out, flags=re.M)[1:]
    res = []
    for b in blocks:
        b = b.split(": list float")[0]
        vals = []
        for t in TOK.findall(b):
            if t in "[]":
                continue
            if t == "nan":
                vals.append(float("nan"))
            elif t == "infinity":
                vals.append(float("inf"))
            elif t == "neg_infinity":
                vals.append(float("-inf"))
            else:
                vals.append(float(t))
        res.append(vals)
    return res


def run_terms(terms, workdir, header=HEADER, jobs=8, chunk=40, timeout=900, stack_unlimited=True):
    """Evaluate terms (each : list float); returns list of list-of-floats, or raises on Coq errors."""
    os.makedirs(workdir, exist_ok=True)
    files = []
    for c in range(0, len(terms), chunk):
        path = os.path.join(workdir, f"cases_{c // chunk:04d}.v")
        with open(path, "w") as f:
            f.write(header)
            for t in terms[c:c + chunk]:
                f.write(f"Eval vm_compute in ({t}).\n")
        files.append((path, len(terms[c:c + chunk])))

    def one(item):
        path, n = item
        cmd = "ulimit -s unlimited 2>/dev/null; exec coqc " + " ".join(QFLAGS) + " " + path
        p = subprocess.run(["bash", "-c", cmd], cwd=COQ, capture_output=True, text=True, timeout=timeout)
        if p.returncode != 0:
            raise RuntimeError(f"coqc failed on {path}:\n{p.stdout[-2000:]}\n{p.stderr[-3000:]}")
        blocks = parse_blocks(p.stdout)
        if len(blocks) != n:
            raise RuntimeError(f"{path}: expected {n} results, parsed {len(blocks)}")
        return blocks

    out = []
    with ThreadPoolExecutor(max_workers=jobs) as ex:
        for blocks in ex.map(one, files):
            out.extend(blocks)
    for path, _ in files:
        for ext in (".v", ".vo", ".vok", ".vos", ".glob"):
            try:
                os.remove(path[:-2] + ext)
            except OSError:
                pass
        try:
            os.remove(os.path.join(os.path.dirname(path), "." + os.path.basename(path)[:-2] + ".aux"))
        except OSError:
            pass
    return out
