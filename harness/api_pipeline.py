"""Run a deterministic set of public-API pipelines and dump every result (used by C19: once compiled, once interpreted)."""
import argparse
import json
import os
import sys

sys.path.insert(0, os.environ.get("VERIF_REPO", "/repo"))
sys.path.insert(0, os.path.dirname(os.path.abspath(__file__)))
import numpy as np  # noqa: E402
import gens  # noqa: E402
from oracles import rand_setup, abs_source, eik  # noqa: E402


def hx(a):
    return [float(x).hex() for x in np.ravel(a)]


def main():
    ap = argparse.ArgumentParser()
    ap.add_argument("--seed", type=int, default=1)
    ap.add_argument("-n", type=int, default=20)
    ap.add_argument("--out", required=True)
    a = ap.parse_args()
    cases = []
    for it in range(a.n):
        # one generator per case: an exception in one build must not shift the inputs of the following cases
        rs = np.random.RandomState((a.seed * 100003 + it) % (2 ** 32))
        nd = 2 if rs.rand() < 0.6 else 3
        cells, d, o = rand_setup(rs, nd, 1, 6 if nd == 2 else 3)
        v, kind = gens.rand_model(rs, cells)
        bad = rs.rand() < 0.1
        scls = "outside"
        if bad:
            src = np.array(gens.outside_point(rs, list(o), [o[k] + d[k] * cells[k] for k in range(nd)])[0])
        else:
            srel, scls = gens.rand_source_rel(rs, cells, d)
            src = abs_source(o, srel, d, cells)
        desc = {"nd": nd, "cells": list(cells), "d": list(d), "o": list(o), "kind": str(kind), "src": src.tolist(), "scls": str(scls), "v_hex": hx(v)}
        case = {"desc": desc, "status": "ok", "values": {}}
        # input representations (same mathematical values): C order, Fortran order, strided view
        vrep = str(rs.choice(["C", "F", "strided"]))
        if vrep == "F":
            vin = np.asfortranarray(v)
        elif vrep == "strided":
            big = np.zeros(tuple(2 * s_ for s_ in v.shape))
            big[tuple(slice(None, None, 2) for _ in v.shape)] = v
            vin = big[tuple(slice(None, None, 2) for _ in v.shape)]
        else:
            vin = v
        desc["vrep"] = vrep
        try:
            E = eik(nd)(vin, d, o)
            if not bad and rs.rand() < 0.5:
                # list form with the same source twice: every item must equal the single solve in both builds
                lst = E.solve(np.array([src, src]), return_gradient=True)
                case["values"]["list_traveltime"] = hx(lst[1].grid)
            tt = E.solve(src, nsweep=int(rs.choice([1, 2, 3])), return_gradient=True)
            case["values"]["traveltime"] = hx(tt.grid)
            case["values"]["gradient"] = hx(tt._gradient)
            case["values"]["vzero"] = hx([tt._vzero])
            axes = [tt.zaxis, tt.xaxis] + ([tt.yaxis] if nd == 3 else [])
            pts = np.array([gens.query_point(rs, axes)[0] for _ in range(6)])
            case["values"]["tt_at_points"] = hx(tt(pts))
            case["values"]["model_at_points"] = hx(E(pts + 0.0)) if min(cells) >= 2 else []
            p = np.array(gens.query_point(rs, axes, cls="interior")[0])
            for honor in (False, True):
                try:
                    ray = tt.raytrace(p, honor_grid=honor)
                    case["values"][f"ray_{honor}"] = hx(ray)
                except RuntimeError:
                    case["values"][f"ray_{honor}"] = []
        except ValueError:
            case["status"] = "ValueError"
        except Exception as ex:  # noqa: BLE001
            case["status"] = type(ex).__name__
        cases.append(case)
    with open(a.out, "w") as f:
        json.dump({"cases": cases}, f)


if __name__ == "__main__":
    main()
