"""Run a deterministic set of public-API pipelines and dump every result (used by C19: once compiled, once interpreted)."""
import argparse
import json
import os
import sys

sys.path.insert(0, os.environ.get("VERIF_REPO", "/repo"))
sys.path.insert(0, os.path.dirname(os.path.abspath(__file__)))
import numpy as np  # noqa: E402
import gens  # noqa: E402
from oracles import rand_setup, abs_source, eik  # noqa: E402


def hx(a):
    return [float(x).hex() for x in np.ravel(a)]


def main():
    ap = argparse.ArgumentParser()
    ap.add_argument("--seed", type=int, default=1)
    ap.add_argument("-n", type=int, default=20)
    ap.add_argument("--out", required=True)
    a = ap.parse_args()
    cases = []
    for it in range(a.n):
        # one generator per case: an exception in one build must not shift the inputs of the following cases
        rs = np.random.RandomState((a.seed * 100003 + it) % (2 ** 32))
        nd = 2 if rs.rand() < 0.6 else 3
        cells, d, o = rand_setup(rs, nd, 1, 6 if nd == 2 else 3)
        v, kind = gens.rand_model(rs, cells)
        bad = rs.rand() < 0.1
        scls = "outside"
        if bad:
            src = np.array(gens.outside_point(rs, list(o), [o[k] + d[k] * cells[k] for k in range(nd)])[0])
        else:
            srel, scls = gens.rand_source_rel(rs, cells, d)
            src = abs_source(o, srel, d, cells)
        desc = {"nd": nd, "cells": list(cells), "d": list(d), "o": list(o), "kind": str(kind), "src": src.tolist(), "scls": str(scls), "v_hex": hx(v)}
        case = {"desc": desc, "status": "ok", "values": {}}
        # input representations (same mathematical values): C order, Fortran order, strided view
        vrep = str(rs.choice(["C", "F", "strided"]))
        if vrep == "F":
            vin = np.asfortranarray(v)
        elif vrep == "strided":
            big = np.zeros(tuple(2 * s_ for s_ in v.shape))
            big[tuple(slice(None, None, 2) for _ in v.shape)] = v
            vin = big[tuple(slice(None, None, 2) for _ in v.shape)]
        else:
            vin = v
        desc["vrep"] = vrep
        try:
            E = eik(nd)(vin, d, o)
            if not bad and rs.rand() < 0.5:
                # list form with the same source twice: every item must equal the single solve in both builds
                lst = E.solve(np.array([src, src]), return_gradient=True)
                case["values"]["list_traveltime"] = hx(lst[1].grid)
            tt = E.solve(src, nsweep=int(rs.choice([1, 2, 3])), return_gradient=True)
            case["values"]["traveltime"] = hx(tt.grid)
            case["values"]["gradient"] = hx(tt._gradient)
            case["values"]["vzero"] = hx([tt._vzero])
            axes = [tt.zaxis, tt.xaxis] + ([tt.yaxis] if nd == 3 else [])
            pts = np.array([gens.query_point(rs, axes)[0] for _ in range(6)])
            case["values"]["tt_at_points"] = hx(tt(pts))
            case["values"]["model_at_points"] = hx(E(pts + 0.0)) if min(cells) >= 2 else []
            p = np.array(gens.query_point(rs, axes, cls="interior")[0])
            for honor in (False, True):
                try:
                    ray = tt.raytrace(p, honor_grid=honor)
                    case["values"][f"ray_{honor}"] = hx(ray)
                except RuntimeError:
                    case["values"][f"ray_{honor}"] = []
        except ValueError:
            case["status"] = "ValueError"
        except Exception as ex:  # noqa: BLE001
            case["status"] = type(ex).__name__
        cases.append(case)
    # extreme but valid scalar arguments (the declared 32-bit widths must not truncate a valid input): a step a billion
    # times smaller than a cell with an explicit small budget and an end point a few steps from the source; a huge budget
    for it in range(max(3, a.n // 8)):
        rs = np.random.RandomState((a.seed * 100003 + 104729 * (it + 1)) % (2 ** 32))
        nd = 2 + it % 2
        cells = tuple(int(rs.randint(2, 5)) for _ in range(nd))
        d = tuple(float(rs.choice([1.0, 50.0, 1000.0])) for _ in range(nd))
        # homogeneous model, source on an interior node, end point on a grid line through it: the interpolated gradient on
        # that edge is exactly along the line, so the ray reaches the source in a handful of steps whatever their size
        v = np.full(cells, 1.0 + rs.rand())
        src = np.array([d[k] * float(rs.randint(1, cells[k])) for k in range(nd)])
        tiny = float(min(d) * rs.choice([1e-9, 1e-11, 3e-10]))
        dirn = np.zeros(nd)
        dirn[int(rs.randint(nd))] = float(rs.choice([-1.0, 1.0]))
        p = src + dirn * tiny * float(rs.uniform(2.2, 6.5))
        desc = {"nd": nd, "cells": list(cells), "d": list(d), "o": [0.0] * nd, "kind": "extreme-scalars", "src": src.tolist(), "scls": "interior",
                "v_hex": hx(v), "point": p.tolist(), "stepsize": tiny}
        case = {"desc": desc, "status": "ok", "values": {}}
        try:
            tt = eik(nd)(v, d).solve(src, return_gradient=True)
            for nm, kw in (("tiny_step", {"stepsize": tiny, "max_step": 40}), ("huge_budget", {"max_step": 2 ** 31 - 1 if it % 2 else 2 ** 20})):
                try:
                    if nm == "huge_budget" and kw["max_step"] > 2 ** 21:
                        continue    # (a 2^31-row buffer cannot be allocated in either build)
                    r = tt.raytrace(p if nm == "tiny_step" else src + 0.3 * np.array(d), **kw)
                    case["values"][nm] = hx(r)
                except RuntimeError:
                    case["values"][nm] = []
        except Exception as ex:  # noqa: BLE001
            case["status"] = type(ex).__name__
        cases.append(case)
    # traveltime grids built directly, with ONE sample along an axis: `_vinterp2d/_vinterp3d` are the two kernels that ask
    # for bounds checking in their own decorator (`boundscheck=True`); on such an axis their far-face branch subscripts
    # `x[-2]`, which is an IndexError in the Python source - and must be one in the compiled build (same exception type)
    from fteikpy import TraveltimeGrid2D, TraveltimeGrid3D
    for it in range(max(4, a.n // 5)):
        rs = np.random.RandomState((a.seed * 100003 + 7919 * (it + 1)) % (2 ** 32))
        nd = 2 + it % 2
        shape = [int(rs.randint(2, 4)) for _ in range(nd)]
        shape[int(rs.randint(nd))] = 1
        d = [float(rs.choice([0.5, 1.0, 2.0])) for _ in range(nd)]
        o = [float(rs.choice([0.0, -1.5, 3.0])) for _ in range(nd)]
        g = 1.0 + rs.rand(*shape)
        hi = [o[k] + d[k] * (shape[k] - 1) for k in range(nd)]
        src = np.array([o[k] + rs.rand() * (hi[k] - o[k]) for k in range(nd)])
        pt = np.array([o[k] + rs.rand() * (hi[k] - o[k]) for k in range(nd)])
        many = bool(it % 4 >= 2)
        desc = {"nd": nd, "cells": shape, "d": d, "o": o, "kind": "direct-one-sample-axis", "src": src.tolist(), "scls": "direct",
                "v_hex": hx(g), "point": pt.tolist(), "list_call": many}
        case = {"desc": desc, "status": "ok", "values": {}}
        try:
            T = (TraveltimeGrid2D if nd == 2 else TraveltimeGrid3D)(g, d, o, src, None, 1.0)
            r = T(np.array([pt, pt])) if many else T(pt)
            case["values"]["direct_tt_at_point"] = hx(r)
        except Exception as ex:  # noqa: BLE001
            case["status"] = type(ex).__name__
        cases.append(case)
    with open(a.out, "w") as f:
        json.dump({"cases": cases}, f)


if __name__ == "__main__":
    main()
