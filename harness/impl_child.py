"""Child process: run kernel cases against the real fteikpy (compiled or interpreted).

usage: impl_child.py <cases.jsonl> <out.jsonl> <start_index>
Each input line: {"k": kernel id, "args": [...]} with arrays as {"shape": [...], "data": [...hex...], "elt": ...}.
Each output line: {"i": index, "status": int, "flat": [hex floats]}.
The mode (jit / interp / boundscheck) is chosen by the parent through NUMBA_* environment variables.
"""
import importlib
import json
import os
import sys

sys.path.insert(0, os.environ.get("VERIF_REPO", "/repo"))
import numpy as np  # noqa: E402


def dec(ty, v):
    if ty == "flt":
        return float.fromhex(v) if isinstance(v, str) else float(v)
    if ty == "int":
        return int(v)
    if ty == "bool":
        return bool(v)
    if isinstance(ty, dict) and "arr" in ty:
        dt = {"flt": np.float64, "int": np.int32, "bool": np.bool_}[ty["arr"]]
        data = v["data"]
        if ty["arr"] == "flt":
            data = [float.fromhex(x) if isinstance(x, str) else float(x) for x in data]
        return np.array(data, dtype=dt).reshape(v["shape"])
    if isinstance(ty, dict) and "tup" in ty:
        return tuple(dec(t, x) for t, x in zip(ty["tup"], v))
    raise ValueError(ty)


def flat(ty, v, out):
    if ty == "flt":
        out.append(float(v))
    elif ty == "int":
        out.append(float(int(v)))
    elif ty == "bool":
        out.append(1.0 if v else 0.0)
    elif isinstance(ty, dict) and "arr" in ty:
        a = np.asarray(v)
        out.append(float(a.ndim))
        out.extend(float(d) for d in a.shape)
        out.extend(float(x) for x in a.ravel(order="C"))
    elif isinstance(ty, dict) and "tup" in ty:
        for t, x in zip(ty["tup"], v):
            flat(t, x, out)
    elif isinstance(ty, dict) and "list" in ty:
        it = ty["list"]
        if isinstance(v, tuple):  # vectorised kernels return a tuple of stacked arrays
            n = len(v[0])
            out.append(float(n))
            for i in range(n):
                flat(it, tuple(x[i] for x in v), out)
        else:
            out.append(float(len(v)))
            for x in v:
                flat(it, x, out)
    else:
        raise ValueError(ty)


def main():
    cases_path, out_path, start = sys.argv[1], sys.argv[2], int(sys.argv[3])
    sigs = json.load(open(os.environ["VERIF_SIGS"]))
    cases = [json.loads(l) for l in open(cases_path)]
    mods = {}
    with open(out_path, "a") as fo:
        for i in range(start, len(cases)):
            c = cases[i]
            sig = sigs[c["k"]]
            fo.write(json.dumps({"i": i, "begin": 1}) + "\n")
            fo.flush()
            mname = "fteikpy." + sig["py_module"]
            if mname not in mods:
                mods[mname] = importlib.import_module(mname)
            fn = getattr(mods[mname], sig["py_name"])
            args = [dec(t, v) for (p, t), v in zip(sig["params"], c["args"])]
            status, out = 0, []
            try:
                r = fn(*args)
                if sig["mutated"]:
                    r = tuple(args[k] for k in sig["mutated"])
                    if len(r) == 1:
                        r = r[0]
                flat(sig["ret"], r, out)
            except ValueError:
                status = 1
            except RuntimeError:
                status = 2
            except IndexError:
                status = 4
            except ZeroDivisionError:
                status = 5
            except Exception as ex:  # noqa: BLE001
                status = 3
                out = []
                sys.stderr.write(f"case {i}: {type(ex).__name__}: {ex}\n")
            fo.write(json.dumps({"i": i, "status": status, "flat": [x.hex() for x in out]}) + "\n")
            fo.flush()


if __name__ == "__main__":
    main()
