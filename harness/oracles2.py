"""Implementation-level oracles, part 2 (C08 .. C20)."""
import copy
import itertools
import math
import os
import sys
import threading
import types

import numpy as np

sys.path.insert(0, os.path.dirname(os.path.abspath(__file__)))
import gens  # noqa: E402
from oracles import Result, model_replay, eik, node_coords, rand_setup, abs_source, hexl  # noqa: E402


def solved(rs, nd, hi=None, grad=True, cls=None, kinds=None, lo=1):
    cells, d, o = rand_setup(rs, nd, lo, hi or (9 if nd == 2 else 4))
    v, kind = gens.rand_model(rs, cells, kind=(rs.choice(kinds) if kinds else None))
    srel, scls = gens.rand_source_rel(rs, cells, d, cls=cls)
    src = abs_source(o, srel, d, cells)
    E = eik(nd)(v, d, o)
    tt = E.solve(src, return_gradient=grad)
    return E, tt, dict(cells=cells, d=d, o=o, v=v, kind=str(kind), src=src, scls=str(scls))


def rand_points(rs, tt, n, classes=("interior", "node", "face", "edgecorner", "line")):
    nd = tt.grid.ndim
    axes = [tt.zaxis, tt.xaxis] + ([tt.yaxis] if nd == 3 else [])
    return np.array([gens.query_point(rs, axes, cls=rs.choice(classes))[0] for _ in range(n)]), axes


# --------------------------------------------------------------------------------------- C08
def oracle_C08(rs, n, ctx):
    import fteikpy
    import numba
    R = Result()
    maxthr = numba.config.NUMBA_NUM_THREADS
    for it in range(n):
        nd = 2 if rs.rand() < 0.65 else 3
        cells, d, o = rand_setup(rs, nd, 1, 8 if nd == 2 else 4)
        v, kind = gens.rand_model(rs, cells)
        thr = int(rs.choice([1, 2, 3, 4, 8, maxthr]))
        thr = max(1, min(thr, maxthr))
        fteikpy.set_num_threads(thr)
        L = int(rs.choice([1, 2, thr, thr + 1, 2 * thr + 1, 5]))
        srcs = np.array([abs_source(o, gens.rand_source_rel(rs, cells, d)[0], d, cells) for _ in range(L)])
        rep = model_replay(v, d, o, srcs, kind=str(kind), threads=thr, length=L)
        E = eik(nd)(v, d, o)
        try:
            lst = E.solve(srcs, return_gradient=True)
            lst2 = E.solve(srcs, return_gradient=True)
            singles = [E.solve(s, return_gradient=True) for s in srcs]
        except Exception as ex:  # noqa: BLE001
            R.case(("exc", nd))
            R.violate("C08:raises", f"{type(ex).__name__}: {ex}", rep)
            continue
        R.case((nd, cells, L, thr, kind), {"nd": nd, "cells": list(cells), "threads": thr, "list_length": L})
        bad = False
        for k, (a, a2, b) in enumerate(zip(lst, lst2, singles)):
            if not (np.array_equal(a.grid, b.grid) and np.array_equal(a._gradient, b._gradient) and a._vzero == b._vzero):
                R.violate("C08:solve", f"list item {k} differs from the single solve (threads={thr}, L={L})", rep)
                bad = True
                break
            if not (np.array_equal(a.grid, a2.grid) and np.array_equal(a._gradient, a2._gradient)):
                R.violate("C08:repeat", f"repeating the list solve changes item {k}", rep)
                bad = True
                break
            if not np.array_equal(np.asarray(a.source), srcs[k]):
                R.violate("C08:order", f"item {k} carries the wrong source", rep)
                bad = True
        if bad:
            continue
        # point evaluation and rays: list vs singles
        tt = singles[0]
        # point lists also come in lengths around typical chunk/block sizes
        npts = int(rs.choice([max(2, L), 7, 64, 65, 100, 130, 257]))
        pts, axes = rand_points(rs, tt, npts)
        if rs.rand() < 0.3:
            pts[0] = [ax[-1] + 1.0 for ax in axes]
        vl = tt(pts)
        vs = np.array([tt(p) for p in pts])
        if not np.array_equal(vl, vs, equal_nan=True):
            R.violate("C08:call", "list point evaluation differs from single evaluations", rep)
        # the fill value in other representations (Python int, NumPy float32, bool): the list kernels have no explicit
        # signature and are specialised on its type; items must still equal the single evaluations, as float64
        fv = [-1, 0, np.float32(2.5), -1.0, True][it % 5]
        pts_f = np.array(pts)
        pts_f[-1] = [ax[-1] + 1.0 for ax in axes]
        for who, f_ in (("traveltime", tt),) + ((("model", E),) if min(cells) >= 2 else ()):
            try:
                vlf = f_(pts_f, fill_value=fv)
                vsf = np.array([f_(p, fill_value=fv) for p in pts_f])
            except Exception as ex:  # noqa: BLE001
                R.violate("C08:call-fill-raises", f"{who} evaluation with fill_value={fv!r}: {type(ex).__name__}: {ex}", dict(rep, fill_value=repr(fv)))
                continue
            R.bump("fill_value_variants")
            if np.asarray(vlf).dtype != np.float64 or not np.array_equal(np.asarray(vlf, dtype=np.float64), np.asarray(vsf, dtype=np.float64), equal_nan=True):
                R.violate("C08:call-fill", f"list {who} evaluation with fill_value={fv!r} (dtype {np.asarray(vlf).dtype}) differs from the single evaluations", dict(rep, fill_value=repr(fv), points=pts_f.tolist()))
        if min(cells) >= 2:   # (a model with a single sample along an axis is outside C14's domain: finding F13)
            gl = E(pts)
            gs = np.array([E(p) for p in pts])
            if not np.array_equal(gl, gs, equal_nan=True):
                R.violate("C08:call", "list model evaluation differs from single evaluations", rep)
        inside = [p for p in pts if all(ax[0] <= p[a] <= ax[-1] for a, ax in enumerate(axes))][:max(2, min(L + 1, 6))]
        if len(inside) >= 2:
            inside = np.array(inside)
            for honor in (False, True):
                try:
                    rl = tt.raytrace(inside, honor_grid=honor)
                    rsi = [tt.raytrace(p, honor_grid=honor) for p in inside]
                except RuntimeError:
                    R.bump("rays_budget")
                    continue
                for k, (x, y) in enumerate(zip(rl, rsi)):
                    if not np.array_equal(x, y):
                        R.violate("C08:rays", f"ray {k} of a list differs from the single trace (honor_grid={honor})", rep)
                        break
        # concurrent callers (nogil)
        if it % 4 == 0:
            out = [None, None]

            def work(i):
                out[i] = E.solve(srcs, return_gradient=True)

            th = [threading.Thread(target=work, args=(i,)) for i in range(2)]
            for t_ in th:
                t_.start()
            for t_ in th:
                t_.join()
            for res in out:
                for a, b in zip(res, singles):
                    if not np.array_equal(a.grid, b.grid):
                        R.violate("C08:concurrent", "concurrent list solves differ from single solves", rep)
                        break
            R.bump("concurrent_runs")
    fteikpy.set_num_threads(maxthr)
    return R


# --------------------------------------------------------------------------------------- C09
def oracle_C09(rs, n, ctx):
    import fteikpy
    R = Result()
    for it in range(n):
        nd = 2 if rs.rand() < 0.6 else 3
        shape = gens.rand_shape(rs, nd, 2, 6)
        d = gens.rand_spacing(rs, nd)
        o = [float(rs.choice(gens.ORIGINS)) for _ in range(nd)]
        cells = tuple(s - 1 for s in shape)
        srel, scls = gens.rand_source_rel(rs, cells, d)
        src = abs_source(o, srel)
        for a in range(nd):
            src[a] = min(max(src[a], o[a]), o[a] + d[a] * cells[a])
        G, axes = node_coords(shape, d, o)
        for a in range(nd):
            src[a] = min(src[a], axes[a][-1])
        s = float(rs.uniform(0.3, 2.0))
        dist = np.sqrt(sum((G[a] - src[a]) ** 2 for a in range(nd)))
        exact = rs.rand() < 0.5
        grid = s * dist if exact else s * dist * rs.uniform(0.8, 1.25, size=shape)
        cls_tt = fteikpy.TraveltimeGrid2D if nd == 2 else fteikpy.TraveltimeGrid3D
        tt = cls_tt(grid, d, o, src, None, s)
        rep = {"grid_shape": list(shape), "grid_hex": hexl(grid), "gridsize": list(d), "origin": o, "source_hex": hexl(src), "vzero": s}
        classes = ["interior", "node", "face", "edgecorner", "line", "outside"]
        pts = [gens.query_point(rs, axes, cls=rs.choice(classes)) for _ in range(8)]
        pts.append(([float(x) for x in src], "source"))
        pts.append(([float(min(max(src[a] + rs.uniform(-.5, .5) * d[a], axes[a][0]), axes[a][-1])) for a in range(nd)], "nearsource"))
        R.case((nd, shape, d, scls, exact), {"nd": nd, "shape": list(shape), "d": list(d), "src": src.tolist(), "exact": exact})
        for p, pc in pts:
            p = np.array(p)
            fv = float(rs.choice([float("nan"), -7.0]))
            r2 = dict(rep, point_hex=hexl(p), cls=str(pc), fill=fv)
            try:
                val = float(tt(p, fill_value=fv))
            except Exception as ex:  # noqa: BLE001
                R.violate(f"C09:raises:{type(ex).__name__}", f"point evaluation raised {type(ex).__name__}: {ex}", r2)
                continue
            inside = all(axes[a][0] <= p[a] <= axes[a][-1] for a in range(nd))
            if not inside:
                if not (val == fv or (math.isnan(val) and math.isnan(fv))):
                    R.violate("C09:outside", f"outside point returned {val!r}, expected fill {fv!r}", r2)
                continue
            dq = math.sqrt(sum((p[a] - src[a]) ** 2 for a in range(nd)))
            if math.isnan(val):
                R.violate("C09:inside-nan", f"in-hull point ({pc}) returned NaN", r2)
                continue
            if np.array_equal(p, src) and val != 0.0:
                R.violate("C09:source", f"value at the source is {val!r}", r2)
            ci = [int(np.searchsorted(axes[a], p[a], side="right") - 1) for a in range(nd)]
            si = [int(np.searchsorted(axes[a], src[a], side="right") - 1) for a in range(nd)]
            if ci == si:
                if abs(val - s * dq) > 1e-12 * max(s * dq, 1e-300) + 1e-300:
                    R.violate("C09:source-cell", f"inside the source cell {val!r} != vzero*dist {s * dq!r}", r2)
                continue
            cc = [min(c, shape[a] - 2) for a, c in enumerate(ci)]
            corners = list(itertools.product(*[(c, c + 1) for c in cc]))
            # the kernel uses only the near face's corners on a far face; both descriptions agree for bounds
            app = []
            zero_corner = False
            for k in corners:
                if grid[k] == 0:
                    zero_corner = True
                else:
                    app.append(dist[k] / grid[k])
            if zero_corner:
                continue
            if exact:
                if abs(val - s * dq) > 1e-9 * max(s * dq, 1e-300) + 1e-14 * s * max(d):
                    R.violate("C09:homogeneous-exact", f"exact homogeneous grid: {val!r} vs {s * dq!r} at a {pc} point", r2)
            else:
                lo, hi = dq / max(app), dq / min(app)
                if not (lo * (1 - 1e-9) - 1e-300 <= val <= hi * (1 + 1e-9) + 1e-300):
                    R.violate("C09:bounds", f"{val!r} outside [dist/vmax, dist/vmin] = [{lo!r}, {hi!r}] ({pc})", r2)
            if pc == "node":
                k = tuple(int(round((p[a] - o[a]) / d[a])) for a in range(nd))
                if all(0 <= k[a] < shape[a] for a in range(nd)) and all(axes[a][k[a]] == p[a] for a in range(nd)):
                    if abs(val - grid[k]) > 1e-12 * max(abs(grid[k]), 1e-300):
                        R.violate("C09:node", f"node {k}: {val!r} vs stored {grid[k]!r}", r2)
    return R


# --------------------------------------------------------------------------------------- rays (C10, C15)
def seg_dist(p, a, b):
    ab = b - a
    t = 0.0 if not ab.any() else min(1.0, max(0.0, float(np.dot(p - a, ab) / np.dot(ab, ab))))
    return float(np.linalg.norm(p - (a + t * ab)))


def stuck_on_line(tt, p, src, d):
    """re-run the per-ray kernel to look at the vertices stored before the budget ran out"""
    try:
        nd = tt.grid.ndim
        g = tt.gradient
        shape = tt.shape
        ms = int(2.0 * math.sqrt(sum((shape[a] * d[a]) ** 2 for a in range(nd))) / min(d))
        if nd == 2:
            import fteikpy._fteik._ray2d as M
            ray, count = M._ray2d_core(tt.zaxis, tt.xaxis, g[0].grid, g[1].grid, p[0], p[1], src[0], src[1], float(min(d)), ms, True)
        else:
            import fteikpy._fteik._ray3d as M
            ray, count = M._ray3d_core(tt.zaxis, tt.xaxis, tt.yaxis, g[0].grid, g[1].grid, g[2].grid, p[0], p[1], p[2], src[0], src[1], src[2], float(min(d)), ms, True)
        if not (ms >= 4 and np.array_equal(ray[ms - 1], ray[ms - 2]) and np.array_equal(ray[ms - 2], ray[ms - 3])):
            return False
        # F15 is specific: the stuck vertex lies on the hull boundary of some axis and the interpolated gradient
        # there points out of the grid along that axis (the step -delta would leave the hull, so the shrink factor
        # is 0).  A ray stuck anywhere else is not this finding.
        v = np.array(ray[ms - 1], dtype=float)
        axes = [tt.zaxis, tt.xaxis] + ([tt.yaxis] if nd == 3 else [])
        gv = [float(g[a](v)) for a in range(nd)]
        for a in range(nd):
            if (v[a] == axes[a][0] and gv[a] > 0) or (v[a] == axes[a][-1] and gv[a] < 0):
                return True
        return False
    except Exception:  # noqa: BLE001
        return False


def ray_oracle(rs, n, ctx, honor):
    R = Result()
    pid = "C15" if honor else "C10"
    for it in range(n):
        nd = 2 if rs.rand() < 0.6 else 3
        homog_eq = rs.rand() < 0.35
        kinds = ["homog"] if homog_eq else ["homog", "layered", "gradient", "lognormal"]
        cells, d, o = rand_setup(rs, nd, 1, 10 if nd == 2 else 7)
        if homog_eq:
            d = tuple([d[0]] * nd)
        kind = str(rs.choice(kinds))
        v, kind = gens.rand_model(rs, cells, kind=kind)
        if kind == "lognormal":
            from scipy.ndimage import gaussian_filter
            v = np.exp(gaussian_filter(np.log(v), 1.0))
        srel, scls = gens.rand_source_rel(rs, cells, d)
        src = abs_source(o, srel, d, cells)
        E = eik(nd)(v, d, o)
        try:
            tt = E.solve(src, nsweep=3, return_gradient=True)
        except Exception as ex:  # noqa: BLE001
            R.bump("solve_failed")
            continue
        axes = [tt.zaxis, tt.xaxis] + ([tt.yaxis] if nd == 3 else [])
        for _ in range(3):
            pc = str(rs.choice(["interior", "node", "face", "edgecorner", "line", "source", "near"]))
            if pc == "source":
                p = np.array(src)
            elif pc == "near":
                p = np.array([min(max(src[a] + rs.uniform(-.4, .4) * min(d), axes[a][0]), axes[a][-1]) for a in range(nd)])
            else:
                p = np.array(gens.query_point(rs, axes, cls=pc)[0])
            kw = {"honor_grid": honor}
            if not honor and rs.rand() < 0.4:
                kw["stepsize"] = float(min(d) * rs.uniform(0.2, 1.5))
            if rs.rand() < 0.15:
                kw["max_step"] = int(rs.randint(1, 8))
            rep = model_replay(v, d, o, src, kind=str(kind), point_hex=hexl(p), cls=pc, kwargs=kw)
            ctx["progress"](rep)
            R.case((nd, cells, d, kind, pc, scls, tuple(sorted(kw))), {"nd": nd, "cells": list(cells), "d": list(d), "kind": str(kind), "point": p.tolist(), "src": src.tolist(), "kw": kw})
            try:
                ray = tt.raytrace(p, **kw)
            except RuntimeError:
                R.bump("runtime_error")
                if homog_eq and "max_step" not in kw:
                    small = (not honor) and kw.get("stepsize", min(d)) < 0.5 * min(d)
                    # known finding F12: with a step much shorter than a cell the ray can oscillate around the
                    # source inside the source cell (the interpolated gradient vanishes there) and never comes
                    # within one step of it
                    key = f"{pid}:homogeneous-raises" + ("-small-step" if small else "")
                    if honor and stuck_on_line(tt, p, src, d):
                        # known finding F15: a grid-honouring ray that sits on a grid line while the gradient
                        # points out of its cell box gets a zero shrink factor and never moves again
                        key += "-stuck-on-line"
                    R.violate(key, f"RuntimeError in a homogeneous medium with equal spacings (default budget, step {kw.get('stepsize', min(d)) / min(d):.2f} cells)", rep)
                continue
            except Exception as ex:  # noqa: BLE001
                R.violate(f"{pid}:raises:{type(ex).__name__}", f"raytrace raised {type(ex).__name__}: {ex}", rep)
                continue
            R.bump("returned")
            ray = np.asarray(ray)
            if ray.ndim != 2 or ray.shape[1] != nd or len(ray) < 2:
                R.violate(f"{pid}:shape", f"ray of shape {ray.shape}", rep)
                continue
            if not np.array_equal(ray[0], src):
                R.violate(f"{pid}:first-vertex", f"first vertex {ray[0].tolist()} is not the source", rep)
            if not np.array_equal(ray[-1], p):
                R.violate(f"{pid}:last-vertex", f"last vertex {ray[-1].tolist()} is not the end point", rep)
            lo = np.array([ax[0] for ax in axes])
            hi = np.array([ax[-1] for ax in axes])
            if ((ray < lo) | (ray > hi)).any() or np.isnan(ray).any():
                R.violate(f"{pid}:outside", "a vertex lies outside the grid", rep)
                continue
            if "max_step" in kw and len(ray) > kw["max_step"] + 1:
                R.violate(f"{pid}:budget", f"{len(ray)} vertices returned with max_step={kw['max_step']}", rep)
            if "max_step" not in kw:
                # budget ladder: the ray stores k = len(ray) - 1 vertices before the source is appended.  The budget only
                # decides between "raise" and "return": max_step <= k must raise RuntimeError, max_step >= k + 1 must
                # return the very same ray (never a ray cut short and closed with a jump to the source)
                k_st = len(ray) - 1
                for M in sorted({max(1, k_st - 1), k_st, k_st + 1, k_st + 3}):
                    try:
                        rM = np.asarray(tt.raytrace(p, max_step=M, **kw))
                    except RuntimeError:
                        rM = None
                    except Exception as ex:  # noqa: BLE001
                        R.violate(f"{pid}:budget-ladder-raises:{type(ex).__name__}", f"max_step={M}: {type(ex).__name__}: {ex}", dict(rep, max_step=M))
                        continue
                    R.bump("budget_ladder")
                    if M <= k_st and rM is not None:
                        R.violate(f"{pid}:budget-truncated-ray", f"the full ray stores {k_st} vertices, yet max_step={M} returned a ray of {len(rM)} rows instead of raising", dict(rep, max_step=M))
                    elif M > k_st and (rM is None or rM.shape != ray.shape or not np.array_equal(rM, ray)):
                        R.violate(f"{pid}:budget-changes-ray", f"the full ray stores {k_st} vertices, yet max_step={M} " + ("raised RuntimeError" if rM is None else f"returned a different ray ({len(rM)} rows)"), dict(rep, max_step=M))
            step = kw.get("stepsize", float(min(d)))
            seg = np.linalg.norm(np.diff(ray, axis=0), axis=1)
            if not honor and (seg > step * (1 + 1e-9)).any():
                # known finding F17: where the interpolated gradient vanishes (midway between two nodes of the
                # source cell whose gradients point away from the source on either side) the tracer stops and
                # jumps to the source: only the segment touching the source is long, and it stays inside one cell
                only_first = (seg[1:] <= step * (1 + 1e-9)).all() and seg[0] <= math.sqrt(sum(x * x for x in d))
                key = "C10:step-length-final-jump-in-source-cell" if only_first else "C10:step-length"
                R.violate(key, f"segment of length {seg.max()!r} > step {step!r}", rep)
            if honor:
                for vtx in ray[1:-1]:
                    on = False
                    for a in range(nd):
                        r_ = (vtx[a] - o[a]) / d[a]
                        if abs(r_ - round(r_)) * d[a] <= 1e-7 + 1e-9 * abs(vtx[a]):
                            on = True
                    if not on:
                        R.violate("C15:vertex-off-grid", f"interior vertex {vtx.tolist()} is on no grid line", rep)
                        break
            if kind == "homog":
                dev = max(seg_dist(q, src, p) for q in ray)
                R.maxstat("max_deviation_cells_homog", dev / max(d))
                if dev > 1.5 * max(d) * (1 + 1e-9) + 1e-12:
                    R.violate(f"{pid}:straightness", f"homogeneous ray deviates {dev / max(d):.3f} cells from the straight segment", rep)
            if not honor and kind in ("homog", "gradient") and max(d) / min(d) <= 2:
                tv = tt(ray)
                dec = np.diff(tv)
                # smooth media, ordinary cells: allow half a step of interpolation wobble
                tolm = 1e-9 * max(np.abs(tv).max(), 1e-300) + 0.5 * step * float((1 / v).max())
                if (dec < -tolm).any():
                    kk = int(np.argmin(dec))
                    near_src = max(np.linalg.norm(ray[kk] - src), np.linalg.norm(ray[kk + 1] - src)) <= 2.0 * max(d)
                    # known finding F12 (same mechanism): with a step shorter than half a cell the ray wanders inside the
                    # cells around the source, where the interpolated gradient is unreliable
                    key = "C10:monotone-small-step-near-source" if (step < 0.5 * min(d) and near_src) else "C10:monotone"
                    # known finding F26 (same family): unequal spacings, step shorter than half the LONGEST cell side: the ray
                    # wanders inside the (elongated) cells around the source before it comes within one step of it
                    if key == "C10:monotone" and near_src and step < 0.5 * max(d) and max(d) > min(d):
                        key = "C10:monotone-near-source-step-below-half-longest-side"
                    R.violate(key, f"interpolated traveltime decreases by {-dec.min():.3e} along the ray (vertex {kk})", rep)
    return R


def oracle_C10(rs, n, ctx):
    return ray_oracle(rs, n, ctx, False)


def oracle_C15(rs, n, ctx):
    return ray_oracle(rs, n, ctx, True)


# --------------------------------------------------------------------------------------- C11
def oracle_C11(rs, n, ctx):
    R = Result()
    known = ctx.get("mode", "jit")
    for it in range(n):
        nd = 2 if rs.rand() < 0.6 else 3
        cells, d, o = rand_setup(rs, nd, 1, 9 if nd == 2 else 4)
        v, kind = gens.rand_model(rs, cells)
        srel, scls = gens.rand_source_rel(rs, cells, d)
        src = abs_source(o, srel, d, cells)
        nsweep = int(rs.choice([1, 2, 3]))
        rep = model_replay(v, d, o, src, kind=str(kind), cls=str(scls), nsweep=nsweep)
        E = eik(nd)(v, d, o)
        try:
            a = E.solve(src, nsweep=nsweep)
            b = E.solve(src, nsweep=nsweep, return_gradient=True)
        except Exception as ex:  # noqa: BLE001
            R.case(("exc", nd))
            R.violate("C11:raises", f"{type(ex).__name__}: {ex}", rep)
            continue
        R.case((nd, cells, d, kind, scls, nsweep), {"nd": nd, "cells": list(cells), "d": list(d), "kind": str(kind), "cls": str(scls)})
        if not np.array_equal(a.grid, b.grid):
            diff = np.abs(a.grid - b.grid)
            k = np.unravel_index(np.argmax(diff), diff.shape)
            ulps = diff[k] / np.spacing(abs(a.grid[k]))
            # known finding F6: the compiled 3D build (fast-math contraction + loop unswitching on `grad`) differs by
            # a few ulp; the source semantics and the interpreter are bit-identical (theorem grad_noninterference)
            key = f"C11:tt-differs-{nd}d"
            if nd == 3 and known == "jit" and ulps <= 8:
                key = "C11:tt-differs-3d-compiled-few-ulp"
            R.violate(key, f"traveltimes with and without return_gradient differ at {k} by {ulps:.1f} ulp", dict(rep, ulps=float(ulps), mode=known, nd=nd))
        g = b._gradient
        if g.shape != b.grid.shape + (nd,):
            R.violate("C11:shape", f"gradient shape {g.shape}", rep)
            continue
        if not np.isfinite(g).all():
            R.violate("C11:nonfinite", "non-finite gradient component", rep)
            continue
        nrm = np.sqrt((g ** 2).sum(axis=-1))
        G, axes = node_coords(b.grid.shape, d, o)
        at_src = np.ones(b.grid.shape, dtype=bool)
        for a_ in range(nd):
            at_src &= np.abs(G[a_] - src[a_]) <= 1e-9 * d[a_]
        reached = b.grid < 0.99e5 if nsweep < 2 else np.ones(b.grid.shape, dtype=bool)
        bad = (np.abs(nrm - 1.0) > 1e-9) & ~at_src & reached
        if bad.any():
            k = tuple(int(x) for x in np.argwhere(bad)[0])
            R.violate("C11:norm", f"gradient norm {nrm[k]!r} at node {k} (not the source)", rep)
        if at_src.any() and (nrm[at_src] > 1e-9).any():
            # coincidence is judged in the solver's own frame: (source - origin) / spacing is exactly the index
            exact_src = np.ones(b.grid.shape, dtype=bool)
            idxs = np.meshgrid(*[np.arange(n_) for n_ in b.grid.shape], indexing="ij")
            for a_ in range(nd):
                exact_src &= idxs[a_] == (src[a_] - np.float64(o[a_])) / d[a_]
            if (nrm[exact_src] != 0).any():
                R.violate("C11:source-nonzero", "gradient at the source node is not zero", rep)
        # sign follows increasing traveltime: compare with one-sided finite differences where they are decisive
        for a_ in range(nd):
            fd = np.diff(b.grid, axis=a_) / d[a_]
            sl_lo = [slice(None)] * nd
            sl_hi = [slice(None)] * nd
            sl_lo[a_] = slice(0, -1)
            sl_hi[a_] = slice(1, None)
            comp = g[..., a_]
            # interior nodes: both one-sided differences agree in sign and are not small -> component has that sign
            inner = [slice(None)] * nd
            inner[a_] = slice(1, -1)
            f1 = fd[tuple(sl_lo)][tuple(inner)] if False else None
        if kind == "homog" and len(set(d)) == 1 and nsweep >= 2:
            away = np.stack([G[a_] - src[a_] for a_ in range(nd)], axis=-1)
            dist = np.sqrt((away ** 2).sum(axis=-1))
            far = dist > 2.0 * d[0] * math.sqrt(nd)
            if far.any():
                cosang = (away[far] * g[far]).sum(axis=-1) / dist[far]
                R.maxstat("max_angle_deg_homog", float(np.degrees(np.arccos(np.clip(cosang.min(), -1, 1)))))
                # "within about 20 degrees": measured worst case over on-node sources 8.5 degrees, over sources a rounding
                # error off a node in 3D (not snapped there) 24 degrees -> the alarm threshold is 25 degrees
                if (cosang < math.cos(math.radians(25.0)) - 1e-9).any():
                    R.violate("C11:direction", f"homogeneous gradient deviates {np.degrees(np.arccos(np.clip(cosang.min(), -1, 1))):.1f} degrees from the radial direction", rep)
    return R


# --------------------------------------------------------------------------------------- C12
def oracle_C12(rs, n, ctx):
    """Run the public API under NUMBA_BOUNDSCHECK=1 (the parent sets the mode): any IndexError is a violation."""
    R = Result()
    for it in range(n):
        nd = 2 if rs.rand() < 0.6 else 3
        cls = str(rs.choice(["far", "corner", "node", "line", "kd", "interior", "nearline"]))
        try:
            E, tt, info = solved(rs, nd, hi=(7 if nd == 2 else 3), grad=True, cls=cls)
        except (IndexError, SystemError) as ex:
            if isinstance(ex, SystemError) and not isinstance(ex.__cause__, IndexError):
                raise
            R.case(("solve", nd, cls))
            R.violate("C12:solve", f"IndexError in solve: {ex}", {"cls": cls})
            continue
        except Exception as ex:  # noqa: BLE001
            R.bump("other_exception_in_solve")
            continue
        rep = model_replay(info["v"], info["d"], info["o"], info["src"], kind=info["kind"], cls=info["scls"])
        R.case((nd, info["cells"], info["d"], info["scls"]), {"nd": nd, "cells": list(info["cells"]), "cls": info["scls"]})
        pts, axes = rand_points(rs, tt, 6, classes=("face", "edgecorner", "node", "line", "interior"))
        for name, f in [("tt(points)", lambda: tt(pts)), ("model(points)", lambda: E(pts))] + \
                [("tt(point)", (lambda p=p: tt(p))) for p in pts] + [("model(point)", (lambda p=p: E(p))) for p in pts]:
            try:
                f()
            except (IndexError, SystemError) as ex:
                if isinstance(ex, SystemError) and not isinstance(ex.__cause__, IndexError):
                    raise
                # (an IndexError inside a parallel loop surfaces as SystemError caused by IndexError)
                # known finding F13: a velocity model with a single sample along an axis, evaluated at a point,
                # reads x[-2] of a one-element axis
                single = name.startswith("model") and 1 in tuple(info["cells"])
                key = "C12:evaluation-single-sample-axis" if single else "C12:evaluation"
                R.violate(key, f"IndexError in {name}: {ex}", dict(rep, points_hex=hexl(pts), call=name))
                break
        # history: the kernels' index safety rests on the axes handed to them having the length of the grid's CURRENT shape;
        # evaluate a model that was evaluated, then resampled to a coarser and to a finer shape (no rs consumption)
        if it % 2 == 0 and min(info["cells"]) >= 2:
            rs2 = np.random.RandomState(9000011 + it)
            Em = eik(nd)(np.array(info["v"], dtype=float, copy=True), info["d"], info["o"])
            try:
                Em(pts[0])
                for nshape in (tuple(max(2, c // 2) for c in info["cells"]), tuple(2 * c + 1 for c in info["cells"])):
                    Em.resample(nshape)
                    lo_ = [info["o"][a_] for a_ in range(nd)]
                    hi_ = [info["o"][a_] + Em.gridsize[a_] * (nshape[a_] - 1) for a_ in range(nd)]
                    q_ = np.array([[lo_[a_] + rs2.rand() * (hi_[a_] - lo_[a_]) for a_ in range(nd)] for _ in range(5)] + [hi_, lo_])
                    Em(q_)
                    Em(q_[0])
            except (IndexError, SystemError) as ex:
                # (an IndexError raised inside the parallel list kernel surfaces as SystemError)
                R.violate("C12:evaluation-after-resample", f"{type(ex).__name__} evaluating a model after resample: {ex}", dict(rep, call="model(points) after resample"))
            except Exception as ex:  # noqa: BLE001
                R.bump("other_exception_after_resample")
        for p in pts:
            for honor in (False, True):
                kw = {"honor_grid": honor}
                if rs.rand() < 0.3:
                    kw["max_step"] = int(rs.randint(1, 6))
                ctx["progress"](dict(rep, point_hex=hexl(p), kwargs=kw))
                try:
                    tt.raytrace(p, **kw)
                    R.bump("rays")
                except (IndexError, SystemError) as ex:
                    if isinstance(ex, SystemError) and not isinstance(ex.__cause__, IndexError):
                        raise
                    R.violate("C12:raytrace", f"IndexError in raytrace({kw}): {ex}", dict(rep, point_hex=hexl(p), kwargs=kw))
                except RuntimeError:
                    R.bump("rays_budget")
        hl = bool(rs.rand() < 0.5)
        try:
            tt.raytrace(pts, honor_grid=hl)
        except (IndexError, SystemError) as ex:
            if isinstance(ex, SystemError) and not isinstance(ex.__cause__, IndexError):
                raise
            R.violate("C12:raytrace-list", f"IndexError in list raytrace (honor_grid={hl}): {ex.__cause__ or ex}", dict(rep, points_hex=hexl(pts), honor_grid=hl))
        except RuntimeError:
            R.bump("rays_budget")
    # longer axes (17..40 cells) with the source on far faces / corners: clamps that rely on an absolute epsilon stop
    # working once n - eps == n in binary64; the reported source-cell slowness must be that of the last cell
    rs2 = np.random.RandomState(rs.randint(0, 2 ** 31 - 1))
    for it in range(max(4, n // 4)):
        nd = 2 if rs2.rand() < 0.7 else 3
        cells = tuple(int(rs2.randint(17, 41)) if (rs2.rand() < 0.7 or a == 0) else int(rs2.randint(1, 5)) for a in range(nd)) if nd == 2 \
            else tuple(int(rs2.randint(17, 25)) if a == int(rs2.randint(0, 3)) else int(rs2.randint(1, 4)) for a in range(nd))
        d = gens.rand_spacing(rs2, nd)
        o = [float(rs2.choice(gens.ORIGINS)) for _ in range(nd)]
        v = rs2.uniform(1.0, 4.0, size=cells)
        far = [bool(rs2.rand() < 0.7) for _ in range(nd)]
        if not any(far):
            far[int(rs2.randint(nd))] = True
        srel = [d[a] * cells[a] if far[a] else float(rs2.uniform(0, d[a] * cells[a])) for a in range(nd)]
        src = abs_source(o, srel, d, cells)
        rep = model_replay(v, d, o, src, kind="uniform-random", cls="far-face-long-axis")
        R.case(("long", nd, cells, tuple(far)), {"nd": nd, "cells": list(cells), "far": far})
        try:
            tt = eik(nd)(v, d, o).solve(src, return_gradient=True)
        except (IndexError, SystemError) as ex:
            if isinstance(ex, SystemError) and not isinstance(ex.__cause__, IndexError):
                raise
            R.violate("C12:solve", f"IndexError in solve (long axis, far-face source): {ex}", rep)
            continue
        except ValueError:
            R.bump("long_axis_source_rejected")
            continue
        eff = np.asarray(src) - np.asarray(o, dtype=float)
        ci = tuple(min(int(eff[a] / d[a]), cells[a] - 1) for a in range(nd))
        if float(tt._vzero) != float(1.0 / v[ci]) and not np.isfinite(tt.grid).all():
            R.violate("C12:solve", f"far-face source on a long axis: source-cell slowness {tt._vzero!r} is not that of cell {ci} and the grid is not finite", rep)
        elif float(tt._vzero) != float(1.0 / v[ci]):
            # a neighbouring cell is legitimate when the other coordinates are within rounding of a cell face
            cands = {float(1.0 / v[tuple(min(max(ci[a] + da[a], 0), cells[a] - 1) for a in range(nd))]) for da in itertools.product((0, -1, 1), repeat=nd)}
            if float(tt._vzero) not in cands:
                R.violate("C12:solve", f"far-face source on a long axis: source-cell slowness {tt._vzero!r} is not a slowness of the model around cell {ci} (read outside the model)", rep)
    return R


# --------------------------------------------------------------------------------------- C13
def oracle_C13(rs, n, ctx):
    import fteikpy
    import numba
    R = Result()
    maxthr = numba.config.NUMBA_NUM_THREADS
    for it in range(n):
        nd = 2 if rs.rand() < 0.6 else 3
        cells, d, o = rand_setup(rs, nd, 1, 7 if nd == 2 else 3)
        v, kind = gens.rand_model(rs, cells)
        E = eik(nd)(v, d, o)
        thr = max(1, min(int(rs.choice([1, 2, 4, maxthr])), maxthr))
        fteikpy.set_num_threads(thr)
        lo = [o[a] for a in range(nd)]
        hi = [o[a] + d[a] * cells[a] for a in range(nd)]
        good = [abs_source(o, gens.rand_source_rel(rs, cells, d, cls="interior")[0], d, cells) for _ in range(4)]
        bad, how = gens.outside_point(rs, lo, hi)
        # only count it as outside if it is outside after the origin shift too
        eff = np.array(bad) - np.asarray(o)
        really_out = any(not (0.0 <= eff[a] <= d[a] * cells[a]) for a in range(nd))
        rep = model_replay(v, d, o, bad, kind=str(kind), how=how, threads=thr)
        R.case((nd, cells, how, thr), {"nd": nd, "cells": list(cells), "bad": [float(x) for x in bad], "how": how, "threads": thr})
        if really_out:
            try:
                r = E.solve(np.array(bad))
                R.violate("C13:single-source", f"single solve with an outside source ({how}) returned instead of raising ValueError", rep)
            except ValueError:
                pass
            except Exception as ex:  # noqa: BLE001
                R.violate("C13:single-source", f"single solve raised {type(ex).__name__} instead of ValueError", rep)
            L = int(rs.randint(2, 6))
            pos = int(rs.randint(0, L))
            lst = [good[k % 4] for k in range(L)]
            lst[pos] = np.array(bad)
            try:
                r = E.solve(np.array(lst))
                R.violate("C13:list-source", f"list solve (bad item at {pos}/{L}, {how}, threads={thr}) returned instead of raising", dict(rep, position=pos, length=L))
            except ValueError:
                pass
            except BaseException as ex:  # noqa: BLE001
                R.violate("C13:list-source", f"list solve raised {type(ex).__name__} instead of ValueError", dict(rep, position=pos, length=L))
        # an outside source next to perfectly valid BOUNDARY sources: one item exactly on the far corner (valid), one item with
        # a coordinate on the far boundary and another coordinate outside (invalid as a whole) - validity is per source,
        # whatever else is in the request
        if really_out:
            far_corner = np.array([o[a] + d[a] * cells[a] for a in range(nd)])
            mixed = np.array(far_corner)
            ax_out = it % nd
            mixed[ax_out] = np.nextafter(far_corner[ax_out], np.inf) if it % 2 else far_corner[ax_out] + 3.7 * d[ax_out]
            if all(0.0 <= (far_corner - np.asarray(o))[a] <= d[a] * cells[a] for a in range(nd)) and (mixed - np.asarray(o))[ax_out] > d[ax_out] * cells[ax_out]:
                brep = dict(rep, far_corner=far_corner.tolist(), mixed=mixed.tolist())
                for form, arg in (("single-mixed", mixed), ("list-corner-then-bad", np.array([far_corner, np.array(bad)])),
                                  ("list-corner-then-mixed", np.array([far_corner, mixed])), ("list-bad-then-corner", np.array([np.array(bad), far_corner]))):
                    try:
                        E.solve(arg)
                        R.violate("C13:boundary-companion", f"{form}: a request containing an outside source next to a valid far-boundary source returned instead of raising ValueError", dict(brep, form=form))
                    except ValueError:
                        pass
                    except BaseException as ex:  # noqa: BLE001
                        R.violate("C13:boundary-companion", f"{form}: raised {type(ex).__name__} instead of ValueError", dict(brep, form=form))
                try:
                    E.solve(np.array([far_corner, far_corner]))
                except Exception as ex:  # noqa: BLE001
                    R.violate("C13:valid-raises", f"list of two far-corner sources raised {type(ex).__name__}: {ex}", brep)
        # valid requests do not raise
        try:
            tt = E.solve(good[0], return_gradient=True)
            tt_nog = E.solve(good[0])
            E.solve(np.array(good))
        except Exception as ex:  # noqa: BLE001
            R.violate("C13:valid-raises", f"valid solve raised {type(ex).__name__}: {ex}", rep)
            continue
        # gradient / rays without gradient
        for f in (lambda: tt_nog.gradient, lambda: tt_nog.raytrace(good[1])):
            try:
                f()
                R.violate("C13:no-gradient", "gradient/raytrace on a grid solved without return_gradient did not raise", rep)
            except ValueError:
                pass
            except Exception as ex:  # noqa: BLE001
                R.violate("C13:no-gradient", f"raised {type(ex).__name__} instead of ValueError", rep)
        axes = [tt.zaxis, tt.xaxis] + ([tt.yaxis] if nd == 3 else [])
        glo = [float(ax[0]) for ax in axes]
        ghi = [float(ax[-1]) for ax in axes]
        pbad, phow = gens.outside_point(rs, glo, ghi)
        pgood = [np.array(gens.query_point(rs, axes, cls="interior")[0]) for _ in range(3)]
        honor = bool(rs.rand() < 0.5)
        rrep = dict(rep, end_point=pbad, how=phow, honor_grid=honor)
        try:
            tt.raytrace(np.array(pbad), honor_grid=honor)
            R.violate("C13:single-endpoint", f"single raytrace to an outside end point ({phow}) returned", rrep)
        except ValueError:
            pass
        except BaseException as ex:  # noqa: BLE001
            R.violate("C13:single-endpoint", f"raised {type(ex).__name__} instead of ValueError", rrep)
        L = int(rs.randint(2, 6))
        pos = int(rs.randint(0, L))
        lst = [pgood[k % 3] for k in range(L)]
        lst[pos] = np.array(pbad)
        expected = None
        for q in lst:
            try:
                tt.raytrace(q, honor_grid=honor)
            except (ValueError, RuntimeError) as ex:
                expected = type(ex)
                break
        try:
            tt.raytrace(np.array(lst), honor_grid=honor)
            R.violate("C13:list-endpoint", f"list raytrace (bad item at {pos}/{L}, {phow}) returned instead of raising", dict(rrep, position=pos, length=L))
        except (ValueError, RuntimeError) as ex:
            if expected is not None and type(ex) is not expected:
                R.violate("C13:list-endpoint", f"list raytrace raised {type(ex).__name__}, the first failing single call raises {expected.__name__}", dict(rrep, position=pos, length=L))
        except BaseException as ex:  # noqa: BLE001
            R.violate("C13:list-endpoint", f"list raytrace raised {type(ex).__name__} instead of ValueError", dict(rrep, position=pos, length=L))
        # exhausted budget: a far end point with a tiny budget
        far = np.array([ghi[a] if abs(ghi[a] - good[0][a]) > abs(glo[a] - good[0][a]) else glo[a] for a in range(nd)])
        if (not honor) and np.linalg.norm(far - good[0]) > 3 * min(d):
            # (free-step mode only: there every step stores a vertex, so the budget is a number of steps)
            for form in ("single", "list"):
                try:
                    if form == "single":
                        r = tt.raytrace(far, max_step=2, honor_grid=honor)
                    else:
                        r = tt.raytrace(np.array([pgood[0], far]), max_step=2, honor_grid=honor)
                    R.violate(f"C13:{form}-budget", f"{form} raytrace with max_step=2 over {np.linalg.norm(far - good[0]) / min(d):.1f} steps returned", dict(rrep, far=far.tolist()))
                except RuntimeError:
                    pass
                except BaseException as ex:  # noqa: BLE001
                    R.violate(f"C13:{form}-budget", f"raised {type(ex).__name__} instead of RuntimeError", dict(rrep, far=far.tolist()))
        # budget ladder (both modes): a ray that stores k vertices under the default budget must raise RuntimeError with
        # max_step = k (single call and as an item of a list) and come back unchanged with max_step = k + 1
        try:
            full = np.asarray(tt.raytrace(pgood[0], honor_grid=honor))
        except RuntimeError:
            full = None
        if full is not None and len(full) >= 3:
            k_st = len(full) - 1
            lrep = dict(rrep, end_point=pgood[0].tolist(), stored=k_st)
            for form in ("single", "list"):
                arg = pgood[0] if form == "single" else np.array([pgood[0], pgood[0]])
                try:
                    r = tt.raytrace(arg, max_step=k_st, honor_grid=honor)
                    R.violate(f"C13:{form}-budget-truncated", f"{form} raytrace: the ray stores {k_st} vertices, max_step={k_st} returned instead of raising RuntimeError", lrep)
                except RuntimeError:
                    pass
                except BaseException as ex:  # noqa: BLE001
                    R.violate(f"C13:{form}-budget", f"raised {type(ex).__name__} instead of RuntimeError", lrep)
                try:
                    r = tt.raytrace(arg, max_step=k_st + 1, honor_grid=honor)
                    r0 = np.asarray(r if form == "single" else r[1])
                    if r0.shape != full.shape or not np.array_equal(r0, full):
                        R.violate(f"C13:{form}-budget-changes-ray", f"{form} raytrace with max_step={k_st + 1} (exactly enough) returned a different ray ({len(r0)} rows vs {len(full)})", lrep)
                except BaseException as ex:  # noqa: BLE001
                    R.violate(f"C13:{form}-sufficient-budget-raises", f"max_step={k_st + 1} (exactly enough) raised {type(ex).__name__}", lrep)
            R.bump("budget_ladders")
        # valid rays do not raise ValueError
        try:
            tt.raytrace(np.array(pgood), honor_grid=honor)
        except RuntimeError:
            R.bump("valid_ray_budget")
        except BaseException as ex:  # noqa: BLE001
            R.violate("C13:valid-raises", f"valid list raytrace raised {type(ex).__name__}: {ex}", rrep)
    fteikpy.set_num_threads(maxthr)
    return R


# --------------------------------------------------------------------------------------- C14
def oracle_C14(rs, n, ctx):
    import fteikpy
    from scipy.interpolate import RegularGridInterpolator
    R = Result()
    for it in range(n):
        nd = 2 if rs.rand() < 0.6 else 3
        shape = gens.rand_shape(rs, nd, 2, 7)
        d = gens.rand_spacing(rs, nd)
        o = [float(rs.choice(gens.ORIGINS)) for _ in range(nd)]
        multilinear = rs.rand() < 0.3
        G, axes = node_coords(shape, d, o)
        if multilinear:
            co = rs.uniform(-1, 1, size=2 ** nd)
            def f(P):
                tot = 0.0
                for m in range(2 ** nd):
                    term = co[m]
                    for a in range(nd):
                        if (m >> a) & 1:
                            term = term * P[a]
                    tot = tot + term
                return tot
            vals = f(G)
        else:
            vals = rs.uniform(-3, 3, size=shape)
        cls_g = fteikpy.Grid2D if nd == 2 else fteikpy.Grid3D
        g = cls_g(vals, d, o)
        sp = RegularGridInterpolator(tuple(axes), vals, method="linear", bounds_error=False, fill_value=np.nan)
        pts = []
        for cls in ["interior", "node", "face", "edgecorner", "line", "outside", "interior", "edgecorner", "face"]:
            pts.append(gens.query_point(rs, axes, cls=cls))
        rep = {"values_shape": list(shape), "values_hex": hexl(vals), "gridsize": list(d), "origin": o}
        R.case((nd, shape, d, multilinear), {"nd": nd, "shape": list(shape), "d": list(d), "o": o, "multilinear": multilinear})
        P = np.array([p for p, _ in pts])
        try:
            lst = g(P)
            singles_ = [float(g(np.array(p))) for p, _ in pts]
        except Exception as ex:  # noqa: BLE001
            R.violate(f"C14:raises:{type(ex).__name__}", f"point evaluation raised {type(ex).__name__}: {ex}", dict(rep, points_hex=hexl(P)))
            continue
        for k, (p, pc) in enumerate(pts):
            p = np.array(p)
            val = singles_[k]
            r2 = dict(rep, point_hex=hexl(p), cls=str(pc))
            if not (val == lst[k] or (math.isnan(val) and math.isnan(lst[k]))):
                R.violate("C14:list", "list evaluation differs from the single evaluation", r2)
            inside = all(axes[a][0] <= p[a] <= axes[a][-1] for a in range(nd))
            if not inside:
                fv = -5.0
                if not math.isnan(val) or float(g(p, fill_value=fv)) != fv:
                    R.violate("C14:outside", f"outside point returned {val!r}", r2)
                continue
            ref = float(sp(p[None, :])[0])
            scale = max(np.abs(vals).max(), 1e-300)
            if math.isnan(val) or abs(val - ref) > 1e-9 * scale:
                R.violate("C14:scipy", f"{val!r} vs SciPy {ref!r} at a {pc} point", r2)
            ci = [min(int(np.searchsorted(axes[a], p[a], side="right") - 1), shape[a] - 2) for a in range(nd)]
            cv = [vals[k_] for k_ in itertools.product(*[(c, c + 1) for c in ci])]
            if not (min(cv) - 1e-12 * scale <= val <= max(cv) + 1e-12 * scale):
                R.violate("C14:convex", f"{val!r} outside the corner range [{min(cv)!r}, {max(cv)!r}]", r2)
            if multilinear:
                ex = float(f([p[a] for a in range(nd)]))
                msc = max(np.abs(vals).max(), abs(ex), 1e-300)
                big = max(abs(x) for x in o) + sum(d[a] * shape[a] for a in range(nd))
                if abs(val - ex) > 1e-9 * msc * max(1.0, big ** nd * 1e-3):
                    R.violate("C14:multilinear", f"{val!r} vs exact multilinear {ex!r}", r2)
            if pc == "node":
                k_ = tuple(int(np.searchsorted(axes[a], p[a], side="right") - 1) for a in range(nd))
                if all(axes[a][k_[a]] == p[a] for a in range(nd)) and abs(val - vals[k_]) > 1e-12 * scale:
                    R.violate("C14:node", f"node {k_}: {val!r} vs {vals[k_]!r}", r2)
        # the same object after it was resampled to another shape: evaluation must be multilinear interpolation on the axes
        # of the CURRENT data (origin + index * current spacing), i.e. agree with SciPy on those axes (no rs consumption)
        if it % 3 == 0:
            rs2 = np.random.RandomState(7000003 + it)
            g_r = cls_g(vals.copy(), d, o)
            g_r(np.array(pts[0][0]))
            nshape = tuple(int(rs2.randint(2, 8)) for _ in range(nd))
            try:
                g_r.resample(nshape)
                ax_r = [np.asarray(o[a]) + g_r.gridsize[a] * np.arange(nshape[a]) for a in range(nd)]
                sp_r = RegularGridInterpolator(tuple(ax_r), g_r.grid, method="linear", bounds_error=False, fill_value=np.nan)
                qr = np.array([[ax_r[a][0] + rs2.rand() * (ax_r[a][-1] - ax_r[a][0]) for a in range(nd)] for _ in range(5)])
                got, ref_r = np.asarray(g_r(qr)), sp_r(qr)
                if np.isnan(got).any() or np.abs(got - ref_r).max() > 1e-9 * max(np.abs(vals).max(), 1e-300):
                    R.violate("C14:after-resample", f"after resample to {nshape} the evaluation differs from multilinear interpolation on the current axes by {np.nanmax(np.abs(got - ref_r)):.3e} (NaN: {int(np.isnan(got).sum())})", dict(rep, new_shape=list(nshape), points_hex=hexl(qr)))
            except Exception as ex:  # noqa: BLE001
                R.violate(f"C14:after-resample-raises:{type(ex).__name__}", f"{type(ex).__name__}: {ex}", dict(rep, new_shape=list(nshape)))
        # equivariance under axis relabelling
        perm = list(rs.permutation(nd))
        g2 = cls_g(np.transpose(vals, perm), [d[a] for a in perm], [o[a] for a in perm])
        p0 = np.array(pts[0][0])
        v1, v2 = float(g(p0)), float(g2(p0[perm]))
        if abs(v1 - v2) > 1e-12 * max(abs(v1), 1e-300):
            R.violate("C14:axis-swap", f"relabelling axes {perm} changes the value {v1!r} -> {v2!r}", dict(rep, point_hex=hexl(p0), perm=[int(x) for x in perm]))
    return R


# --------------------------------------------------------------------------------------- C16
def oracle_C16(rs, n, ctx):
    R = Result()
    for it in range(n):
        nd = 2 if rs.rand() < 0.6 else 3
        cells, d, o = rand_setup(rs, nd, 2, 9 if nd == 2 else 5)
        kind = str(rs.choice(["homog", "layered", "gradient", "lognormal"]))
        v, kind = gens.rand_model(rs, cells, kind=kind)
        E = eik(nd)(v.copy(), d, o)
        # history: every other model is solved once BEFORE it is edited (anything derived from the model and kept by the
        # object - a cached slowness, cached axes - must not survive resample / smooth)
        mid = np.array([o[a] + 0.5 * cells[a] * d[a] for a in range(nd)])
        if it % 2 == 0:
            E.solve(mid)
            E(mid)
        new_shape = tuple(int(rs.randint(2, 12 if nd == 2 else 6)) for _ in range(nd))
        method = str(rs.choice(["linear", "nearest"]))
        rep = model_replay(v, d, o, [0.0] * nd, kind=str(kind), new_shape=list(new_shape), method=method)
        R.case((nd, cells, new_shape, method, kind), {"nd": nd, "cells": list(cells), "new_shape": list(new_shape), "method": method, "kind": str(kind)})
        try:
            E.resample(new_shape, method=method)
        except Exception as ex:  # noqa: BLE001
            R.violate("C16:resample-raises", f"{type(ex).__name__}: {ex}", rep)
            continue
        if tuple(E.shape) != new_shape:
            R.violate("C16:resample-shape", f"shape {E.shape} != {new_shape}", rep)
            continue
        if not np.array_equal(E.origin, np.asarray(o, dtype=float)):
            R.violate("C16:resample-origin", "origin changed", rep)
        for a in range(nd):
            ext0, ext1 = cells[a] * d[a], new_shape[a] * E.gridsize[a]
            if abs(ext0 - ext1) > 1e-12 * ext0:
                R.violate("C16:resample-extent", f"axis {a}: extent {ext0!r} -> {ext1!r} (spacing {E.gridsize[a]!r})", rep)
                break
        # the resampled object must behave exactly like a fresh object built from its own (grid, spacing, origin): node axes
        # of the new length starting at the origin, and point evaluation on them (no state surviving from before the edit)
        axes_new = [E.zaxis, E.xaxis] + ([E.yaxis] if nd == 3 else [])
        fresh = eik(nd)(E.grid.copy(), E.gridsize, E.origin)
        axes_fresh = [fresh.zaxis, fresh.xaxis] + ([fresh.yaxis] if nd == 3 else [])
        for a in range(nd):
            if len(axes_new[a]) != new_shape[a] or not np.array_equal(axes_new[a], axes_fresh[a]) or axes_new[a][0] != float(o[a]):
                R.violate("C16:resample-axes", f"axis {a} after resample has {len(axes_new[a])} nodes {np.asarray(axes_new[a])[:3].tolist()}.. , a fresh grid with the same data has {len(axes_fresh[a])} nodes {np.asarray(axes_fresh[a])[:3].tolist()}..", rep)
                break
        rs2 = np.random.RandomState(1000003 + it)
        qp = np.array([[axes_fresh[a][0] + rs2.rand() * (axes_fresh[a][-1] - axes_fresh[a][0]) for a in range(nd)] for _ in range(6)])
        try:
            if not np.array_equal(E(qp), fresh(qp), equal_nan=True):
                R.violate("C16:evaluate-after-resample", f"evaluating the resampled model differs from a fresh model with the same data (max {np.nanmax(np.abs(E(qp) - fresh(qp))):.3e})", dict(rep, points=qp.tolist()))
        except Exception as ex:  # noqa: BLE001
            R.violate("C16:evaluate-after-resample", f"{type(ex).__name__}: {ex}", rep)
        if E.grid.min() < v.min() - 1e-12 * abs(v.min()) or E.grid.max() > v.max() + 1e-12 * abs(v.max()) or not np.isfinite(E.grid).all():
            R.violate("C16:resample-range", f"values [{E.grid.min()!r}, {E.grid.max()!r}] leave [{v.min()!r}, {v.max()!r}]", rep)
        if kind == "homog" and np.abs(E.grid - v.flat[0]).max() > 1e-12 * abs(v.flat[0]):
            R.violate("C16:resample-constant", "constant model not preserved", rep)
        if kind == "layered":
            ax = [a for a in range(nd) if not np.all(np.diff(v, axis=a) == 0)]
            if len(ax) == 1:
                prof0 = np.moveaxis(v, ax[0], 0).reshape(v.shape[ax[0]], -1)[:, 0]
                if (np.diff(prof0) >= 0).all() or (np.diff(prof0) <= 0).all():
                    prof1 = np.moveaxis(E.grid, ax[0], 0).reshape(E.grid.shape[ax[0]], -1)[:, 0]
                    s = 1 if (np.diff(prof0) >= 0).all() else -1
                    if (s * np.diff(prof1) < -1e-12).any():
                        R.violate("C16:resample-monotone", "monotone profile not preserved", rep)
        # smooth: unit invariance, constants, range, metadata; then solve uses the edited model
        E2 = eik(nd)(v.copy(), d, o)
        if it % 2 == 0:
            E2.solve(mid)
            E2(mid)
        sigma = float(rs.uniform(0.3, 2.5)) * float(np.mean(d)) if rs.rand() < 0.5 else [float(rs.uniform(0.3, 2.5) * d[a]) for a in range(nd)]
        # unit changes from the everyday (m <-> km) to the extreme (m <-> nm): an absolute tolerance on a length shows at the extremes
        c = float(rs.choice([0.001, 1000.0, 2.0, 1e-9, 1e9, 1e-12]))
        E3 = eik(nd)(v.copy(), tuple(x * c for x in d), [x * c for x in o])
        srep = dict(rep, sigma=sigma, c=c)
        # sigma is passed in every representation users have: float, list, and a float64 array that is reused
        how = str(rs.choice(["asis", "array", "array"]))
        if how == "array":
            sigma = np.array(np.full(nd, sigma) if np.isscalar(sigma) else sigma, dtype=np.float64)
        sigma_before = copy.deepcopy(sigma)
        try:
            E2.smooth(sigma)
            if not np.array_equal(np.asarray(sigma), np.asarray(sigma_before)):
                R.violate("C16:smooth-argument-modified", f"smooth modified its sigma argument: {np.asarray(sigma_before).tolist()} -> {np.asarray(sigma).tolist()}", dict(srep, sigma_repr=how))
                sigma = copy.deepcopy(sigma_before)
            # a second model smoothed with the very same sigma object must get the same result (sequence of calls)
            E2b = eik(nd)(v.copy(), d, o)
            E2b.smooth(sigma)
            if not np.array_equal(E2b.grid, E2.grid):
                R.violate("C16:smooth-history", "smoothing a second model with the same sigma object gives a different result", dict(srep, sigma_repr=how))
            E3.smooth(np.asarray(sigma_before) * c if not np.isscalar(sigma_before) else sigma_before * c)
        except Exception as ex:  # noqa: BLE001
            R.violate("C16:smooth-raises", f"{type(ex).__name__}: {ex}", srep)
            continue
        if tuple(E2.shape) != tuple(cells) or tuple(E2.gridsize) != tuple(d) or not np.array_equal(E2.origin, np.asarray(o, dtype=float)):
            R.violate("C16:smooth-meta", "smooth changed shape, spacing or origin", srep)
        if np.abs(E2.grid - E3.grid).max() > 1e-9 * np.abs(v).max():
            R.violate("C16:smooth-units", f"smooth is not invariant under a change of length units (c={c}): {np.abs(E2.grid - E3.grid).max():.3e}", srep)
        if E2.grid.min() < v.min() * (1 - 1e-12) or E2.grid.max() > v.max() * (1 + 1e-12):
            R.violate("C16:smooth-range", "smooth leaves the original value range", srep)
        if kind == "homog" and np.abs(E2.grid - v.flat[0]).max() > 1e-12 * abs(v.flat[0]):
            R.violate("C16:smooth-constant", "smooth does not preserve a constant", srep)
        src = abs_source(o, gens.rand_source_rel(rs, cells, d, cls="interior")[0], d, cells)
        try:
            t_after = E2.solve(src).grid
            t_ref = eik(nd)(E2.grid.copy(), E2.gridsize, E2.origin).solve(src).grid
            if not np.array_equal(t_after, t_ref):
                R.violate("C16:solve-after-edit", "solve after smooth does not use the edited model", srep)
            srcn = np.array([o[a] + 0.5 * new_shape[a] * E.gridsize[a] for a in range(nd)])
            t_after = E.solve(srcn).grid
            t_ref = eik(nd)(E.grid.copy(), E.gridsize, E.origin).solve(srcn).grid
            if not np.array_equal(t_after, t_ref):
                R.violate("C16:solve-after-edit", "solve after resample does not use the edited model", rep)
        except Exception as ex:  # noqa: BLE001
            R.violate("C16:solve-after-edit", f"solve after edit raised {type(ex).__name__}: {ex}", srep)
    return R


# --------------------------------------------------------------------------------------- C17
def oracle_C17(rs, n, ctx):
    import fteikpy
    R = Result()

    def reps(a, how):
        a = np.asarray(a, dtype=np.float64)
        if how == "list":
            return a.tolist()
        if how == "tuple":
            return tuple(map(tuple, a)) if a.ndim == 2 else tuple(a.tolist())
        if how == "F":
            return np.asfortranarray(a)
        if how == "strided":
            big = np.zeros(tuple(2 * s for s in a.shape))
            big[tuple(slice(None, None, 2) for _ in a.shape)] = a
            return big[tuple(slice(None, None, 2) for _ in a.shape)]
        return a.copy()

    for it in range(n):
        nd = 2 if rs.rand() < 0.6 else 3
        cells, d, o = rand_setup(rs, nd, 1, 7 if nd == 2 else 3)
        # values exactly representable in float32 so that dtype changes do not change the mathematical value
        v = np.round(rs.uniform(1, 4, size=cells) * 8) / 8
        srcs = np.array([abs_source(o, gens.rand_source_rel(rs, cells, d, cls=rs.choice(["interior", "node", "kd"]))[0], d, cells) for _ in range(3)])
        E = eik(nd)(v, d, o)
        ref_single = E.solve(srcs[0], return_gradient=True)
        ref = {"grid": ref_single.grid.copy(), "grad": ref_single._gradient.copy()}
        pts, axes = rand_points(rs, ref_single, 4)
        ref_vals = ref_single(pts).copy()
        try:
            ref_ray = ref_single.raytrace(pts[0]).copy()
        except RuntimeError:
            ref_ray = None
        rep = model_replay(v, d, o, srcs, history=[])
        hist = []
        vrep = str(rs.choice(["copy", "list", "F", "strided", "float32", "int-ish"]))
        if vrep == "float32":
            vin = v.astype(np.float32)
        elif vrep == "int-ish":
            vin = v
        else:
            vin = reps(v, vrep)
        E2 = eik(nd)(vin, list(d) if rs.rand() < 0.5 else tuple(d), list(o) if rs.rand() < 0.5 else np.array(o))
        objs = {"E": E, "E2": E2, "Ec": copy.copy(E), "Ed": copy.deepcopy(E)}
        v_before = v.copy()
        srcs_before = srcs.copy()
        ok = True
        for step in range(int(rs.randint(3, 8))):
            op = str(rs.choice(["solve", "solve_list", "solve_bad", "other_dim", "call", "ray", "solve_rep", "gradient_edit", "axes_edit"]))
            tgt = str(rs.choice(list(objs)))
            hist.append([op, tgt])
            try:
                if op == "solve":
                    r = objs[tgt].solve(srcs[0], return_gradient=True)
                    if not (np.array_equal(r.grid, ref["grid"]) and np.array_equal(r._gradient, ref["grad"])):
                        R.violate("C17:history", f"solve on {tgt} after {hist[:-1]} differs from the first solve", dict(rep, history=hist, vrep=vrep))
                        ok = False
                elif op == "solve_rep":
                    how = str(rs.choice(["list", "tuple", "F", "copy"]))
                    r = objs[tgt].solve(reps(srcs[0], how) if how != "F" else np.asfortranarray(srcs[0]), return_gradient=True)
                    if not np.array_equal(r.grid, ref["grid"]):
                        R.violate("C17:representation", f"source given as {how}: result differs", dict(rep, history=hist, vrep=vrep))
                        ok = False
                elif op == "solve_list":
                    how = str(rs.choice(["copy", "F", "strided", "list"]))
                    rl = objs[tgt].solve(reps(srcs, how), return_gradient=True)
                    if not np.array_equal(rl[0].grid, ref["grid"]):
                        R.violate("C17:history", f"list solve ({how}) item 0 differs from the single solve", dict(rep, history=hist, vrep=vrep))
                        ok = False
                elif op == "solve_bad":
                    try:
                        objs[tgt].solve(np.array([1e9] * nd))
                    except ValueError:
                        pass
                elif op == "other_dim":
                    nd2 = 5 - nd
                    eik(nd2)(np.ones((3,) * nd2), (1.0,) * nd2).solve(np.full(nd2, 1.3), return_gradient=True)
                elif op == "call":
                    how = str(rs.choice(["copy", "F", "strided", "list"]))
                    vals = ref_single(reps(pts, how))
                    if not np.array_equal(vals, ref_vals, equal_nan=True):
                        R.violate("C17:representation", f"points given as {how}: values differ", dict(rep, history=hist))
                        ok = False
                elif op == "gradient_edit":
                    # objects handed out by read-only accessors are the caller's: editing them must not come back
                    keys_before = sorted(vars(ref_single))
                    gl = ref_single.gradient
                    for g_ in gl:
                        # (writing through g_.grid itself would be the caller editing a documented view, not an API effect)
                        if rs.rand() < 0.5:
                            g_.smooth(float(rs.uniform(0.5, 2.0)))
                        else:
                            g_.resample(tuple(int(x) + 1 for x in g_.shape))
                    gl2 = ref_single.gradient
                    if not all(np.array_equal(g2_.grid, ref["grad"][..., k_]) for k_, g2_ in enumerate(gl2)):
                        R.violate("C17:history", "gradient grids returned after the caller edited earlier ones differ from the solved gradient", dict(rep, history=hist))
                        ok = False
                    if sorted(vars(ref_single)) != keys_before:
                        R.violate("C17:object-modified", f"reading .gradient added attributes {sorted(set(vars(ref_single)) - set(keys_before))} to the traveltime object", dict(rep, history=hist))
                        ok = False
                elif op == "axes_edit":
                    for nm in ("zaxis", "xaxis", "yaxis")[:nd]:
                        ax_ = getattr(ref_single, nm)
                        ax0 = ax_.copy()
                        ax_ += 1.0
                        if not np.array_equal(getattr(ref_single, nm), ax0):
                            R.violate("C17:history", f"editing the array returned by .{nm} changes later results of .{nm}", dict(rep, history=hist))
                            ok = False
                elif op == "ray" and ref_ray is not None:
                    ray = ref_single.raytrace(pts[0])
                    if not np.array_equal(ray, ref_ray):
                        R.violate("C17:history", "raytrace result changed along the history", dict(rep, history=hist))
                        ok = False
            except Exception as ex:  # noqa: BLE001
                R.violate("C17:raises", f"{op} on {tgt} raised {type(ex).__name__}: {ex}", dict(rep, history=hist, vrep=vrep))
                ok = False
            if not ok:
                break
        R.case((nd, cells, vrep, tuple(map(tuple, hist))), {"nd": nd, "cells": list(cells), "vrep": vrep, "history": hist})
        if not np.array_equal(v, v_before) or not np.array_equal(srcs, srcs_before):
            R.violate("C17:argument-modified", "an argument array was modified", dict(rep, history=hist))
        if not (np.array_equal(E.grid, v_before) and tuple(E.gridsize) == tuple(d)):
            R.violate("C17:object-modified", "the solver object was modified by read-only operations", dict(rep, history=hist))
        if not (np.array_equal(ref_single.grid, ref["grid"]) and np.array_equal(ref_single._gradient, ref["grad"])):
            R.violate("C17:object-modified", "the traveltime grid object was modified by read-only operations", dict(rep, history=hist))
    return R


# --------------------------------------------------------------------------------------- C18
def oracle_C18(rs, n, ctx):
    import fteikpy
    R = Result()
    for it in range(n):
        nd = 2 if rs.rand() < 0.6 else 3
        cells, d, o = rand_setup(rs, nd, 2, 12 if nd == 2 else 6)
        while max(d) / min(d) > 4:
            d = gens.rand_spacing(rs, nd)
        u_ = rs.rand()
        homog_eq = u_ < 0.3
        if homog_eq:
            d = tuple([d[0]] * nd)
            v = np.full(cells, float(rs.choice([1.0, 2.0, 3.5])))
            kind = "homog"
        elif u_ < 0.5:
            # homogeneous with unequal spacings of aspect <= 2: the exact solution is known, so the tolerance is sharp
            h_ = float(rs.choice(gens.SPACINGS))
            d = tuple(h_ * float(rs.choice([1.0, 1.25, 1.5, 2.0])) for _ in range(nd))
            if nd == 3 and rs.rand() < 0.5:
                # larger 3D grids: an operator that treats the axes unequally shows as an error growing with distance
                cells = tuple(int(x) for x in rs.randint(8, 17, 3))
            v = np.full(cells, float(rs.choice([1.0, 2.0, 3.5])))
            kind = "homog"
        else:
            v, kind = gens.rand_model(rs, cells)
        srel, scls = gens.rand_source_rel(rs, cells, d, cls=rs.choice(["node", "interior", "line", "kd"]))
        src = np.array(srel)
        o0 = [0.0] * nd
        perm = [int(x) for x in rs.permutation(nd)]
        mirror = [bool(rs.rand() < 0.4) for _ in range(nd)]
        rep = model_replay(v, d, o0, src, kind=str(kind), perm=perm, mirror=mirror)
        try:
            a = eik(nd)(v, d, o0).solve(src, nsweep=4).grid
            v2 = np.transpose(v, perm)
            d2 = tuple(d[p] for p in perm)
            s2 = src[perm].copy()
            c2 = tuple(cells[p] for p in perm)
            for ax in range(nd):
                if mirror[ax]:
                    v2 = np.flip(v2, axis=ax)
                    s2[ax] = d2[ax] * c2[ax] - s2[ax]
            s2 = np.clip(s2, 0, [d2[a] * c2[a] for a in range(nd)])
            b = eik(nd)(np.ascontiguousarray(v2), d2, o0).solve(s2, nsweep=4).grid
        except Exception as ex:  # noqa: BLE001
            R.case(("exc", nd))
            R.violate("C18:raises", f"{type(ex).__name__}: {ex}", rep)
            continue
        for ax in range(nd):
            if mirror[ax]:
                b = np.flip(b, axis=ax)
        inv = np.argsort(perm)
        b = np.transpose(b, inv)
        R.case((nd, cells, d, tuple(perm), tuple(mirror), kind), {"nd": nd, "cells": list(cells), "d": list(d), "perm": perm, "mirror": mirror, "kind": str(kind)})
        smax = float((1 / v).max())
        diff = np.abs(a - b)
        if homog_eq:
            tol = 1e-9 * max(np.abs(a).max(), 1e-300)
            cellt = diff.max() / (max(d) * smax)
            R.maxstat("max_homog_diff_in_cell_times", cellt)
            if diff.max() > tol:
                if nd == 2 and not any(mirror):
                    R.violate("C18:homogeneous-2d-relabel", f"2D homogeneous equal-spacing field changes by {diff.max():.3e} under axis relabelling", rep)
                elif cellt <= 1.0:
                    # known finding F14: the Gauss-Seidel sweep order is not symmetric; mirroring (2D) and any
                    # relabelling or mirroring (3D) change homogeneous fields by up to ~0.5 cell-crossing times (each
                    # result is within the one-cell tolerance of C01)
                    R.violate("C18:homogeneous-sweep-order", f"homogeneous equal-spacing field changes by {cellt:.3f} cell-crossing times under {'mirroring' if nd == 2 else 'relabelling/mirroring'}", rep)
                else:
                    R.violate("C18:homogeneous", f"homogeneous equal-spacing field changes by {cellt:.3f} cell-crossing times", rep)
        else:
            # the discretisation tolerance: the bound by which either field differs from the exact solution where one is
            # known - homogeneous 2D with aspect <= 2: twice the C01 bound (exact near field, 2.5% far field);
            # otherwise the first-order bound used for the exact solutions (C02)
            if kind == "homog" and nd == 2 and max(d) / min(d) <= 2:
                tol = 2 * 0.025 * np.maximum(a, b) + 1e-9 * max(d) * smax
            else:
                tol = 1.5 * max(d) * smax
            R.maxstat("max_diff_in_cell_times", diff.max() / (max(d) * smax))
            if (diff > tol).any():
                R.violate("C18:tolerance", f"permuted/mirrored field differs by {diff.max() / (max(d) * smax):.2f} cell-crossing times", rep)
    return R


# --------------------------------------------------------------------------------------- C20
class FakeMesh:
    def __init__(self, points, cells, point_data=None, cell_data=None):
        self.points, self.cells, self.point_data, self.cell_data = points, cells, point_data or {}, cell_data or {}


def install_fake_meshio():
    m = types.ModuleType("meshio")
    m.Mesh = FakeMesh
    sys.modules["meshio"] = m


def oracle_C20(rs, n, ctx):
    import fteikpy
    install_fake_meshio()
    R = Result()
    for it in range(n):
        nd = 2 if rs.rand() < 0.5 else 3
        cells, d, o = rand_setup(rs, nd, 1, 6 if nd == 2 else 4)
        v, kind = gens.rand_model(rs, cells, kind="lognormal")
        E = eik(nd)(v, d, o)
        nt = int(rs.randint(0, 3))
        tts = []
        for _ in range(nt):
            src = abs_source(o, gens.rand_source_rel(rs, cells, d, cls="interior")[0], d, cells)
            tts.append(E.solve(src, return_gradient=bool(rs.rand() < 0.7)))
        first_tt = nt > 0 and rs.rand() < 0.5
        args = (tts + [E]) if first_tt else ([E] + tts)
        rep = model_replay(v, d, o, [0.0] * nd, n_traveltime=nt, first_is_traveltime=bool(first_tt))
        R.case((nd, cells, nt, first_tt), {"nd": nd, "cells": list(cells), "d": list(d), "o": o, "n_traveltime": nt})
        try:
            mesh = fteikpy.grid_to_meshio(*args)
        except Exception as ex:  # noqa: BLE001
            R.violate("C20:grid-raises", f"{type(ex).__name__}: {ex}", rep)
            continue
        # history: the same export repeated in the same process gives the same mesh, and a mesh already handed out is not
        # changed by later exports (no state shared between calls)
        P_first = np.array(mesh.points, copy=True)
        try:
            mesh2 = fteikpy.grid_to_meshio(*args)
            if not np.array_equal(np.asarray(mesh2.points), P_first):
                R.violate("C20:repeat-export", f"the second export of the same grids has different points (max |diff| {np.abs(np.asarray(mesh2.points) - P_first).max():.3e})", rep)
            if not np.array_equal(np.asarray(mesh.points), P_first):
                R.violate("C20:repeat-export", "a mesh already returned was modified by a later export", rep)
        except Exception as ex:  # noqa: BLE001
            R.violate("C20:grid-raises", f"second export: {type(ex).__name__}: {ex}", rep)
        P = np.asarray(P_first)
        nn = tuple(c + 1 for c in cells)
        if len(P) != int(np.prod(nn)):
            R.violate("C20:points", f"{len(P)} points for {nn} nodes", rep)
            continue
        # locate every point's node from its coordinates (X, Y, -Z)
        def node_of(pt):
            x, y, z = pt
            iz = (-z - o[0]) / d[0]
            ix = (x - o[1]) / d[1]
            iy = (y - o[2]) / d[2] if nd == 3 else 0.0
            k = (int(round(iz)), int(round(ix))) + ((int(round(iy)),) if nd == 3 else ())
            ok = abs(iz - k[0]) < 1e-6 and abs(ix - k[1]) < 1e-6 and (nd == 2 and y == 0.0 or nd == 3 and abs(iy - k[2]) < 1e-6)
            return k if ok else None
        nodes = [node_of(p) for p in P]
        if any(k is None for k in nodes) or len(set(nodes)) != len(nodes):
            R.violate("C20:coordinates", "points are not the grid nodes at (X, Y, -Z)", rep)
            continue
        tcount = 0
        for t in tts:
            tcount += 1
            name = f"Traveltime {tcount}" if tcount > 1 else "Traveltime"
            data = np.asarray(mesh.point_data[name])
            if any(data[i] != t.grid[k] for i, k in enumerate(nodes)):
                R.violate("C20:traveltime", f"{name}: point data is not the node's traveltime", rep)
            if t._gradient is not None:
                gname = f"Gradient {tcount}" if tcount > 1 else "Gradient"
                gd = np.asarray(mesh.point_data[gname])
                for i, k in enumerate(nodes):
                    gz, gx = t._gradient[k][0], t._gradient[k][1]
                    gy = t._gradient[k][2] if nd == 3 else 0.0
                    if not (gd[i][0] == gx and gd[i][1] == gy and gd[i][2] == -gz):
                        R.violate("C20:gradient", f"{gname}: point {i} has {gd[i].tolist()} for node gradient (z,x,y)=({gz},{gx},{gy})", rep)
                        break
        ctype, conn = mesh.cells[0]
        conn = np.asarray(conn)
        vel = np.asarray(mesh.cell_data["Velocity"][0])
        if len(conn) != int(np.prod(cells)) or len(vel) != len(conn):
            R.violate("C20:cells", f"{len(conn)} cells / {len(vel)} values for {cells}", rep)
            continue
        for c, cn in enumerate(conn):
            ks = [nodes[i] for i in cn]
            lo = tuple(min(k[a] for k in ks) for a in range(nd))
            want = set(itertools.product(*[(lo[a], lo[a] + 1) for a in range(nd)]))
            if set(ks) != want or len(set(ks)) != 2 ** nd:
                R.violate("C20:connectivity", f"cell {c} does not connect the corners of one model cell", rep)
                break
            if any(lo[a] >= cells[a] for a in range(nd)) or vel[c] != v[lo]:
                R.violate("C20:cell-data", f"cell {c} (model cell {lo}) carries {vel[c]!r}, model has {v[lo] if all(lo[a] < cells[a] for a in range(nd)) else None!r}", rep)
                break
        # rays
        nr = int(rs.randint(1, 4))
        rays = [rs.uniform(-5, 5, size=(int(rs.randint(2, 6)), nd)) for _ in range(nr)]
        try:
            rm = fteikpy.ray_to_meshio(*rays)
        except Exception as ex:  # noqa: BLE001
            R.violate(f"C20:ray-raises:{type(ex).__name__}", f"ray_to_meshio with {nr} rays raised {type(ex).__name__}: {ex}", dict(rep, n_rays=nr))
            continue
        RP = np.asarray(rm.points)
        allv = np.vstack(rays)
        want = np.column_stack([allv[:, 1], allv[:, 2] if nd == 3 else np.zeros(len(allv)), -allv[:, 0]])
        if RP.shape != want.shape or not np.array_equal(RP, want):
            R.violate("C20:ray-points", "ray points are not the vertices in order as (X, Y, -Z)", dict(rep, n_rays=nr))
        off = 0
        for k, (ray, (ct, cc)) in enumerate(zip(rays, rm.cells)):
            cc = np.asarray(cc)
            exp = np.column_stack([np.arange(len(ray) - 1), np.arange(1, len(ray))]) + off
            if ct != "line" or not np.array_equal(cc, exp):
                R.violate("C20:ray-connectivity", f"ray {k}: segments do not connect consecutive vertices", dict(rep, n_rays=nr))
            off += len(ray)
    return R
