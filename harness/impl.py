"""Parent side: run kernel cases on the implementation in a watched child process."""
import json
import os
import subprocess
import sys
import time

import numpy as np

VERIF = os.path.dirname(os.path.dirname(os.path.abspath(__file__)))
PY = "/venv/bin/python"
REPO = os.environ.get("VERIF_REPO", "/repo")


def numba_cache_dir(mode):
    """On-disk JIT cache keyed by a digest of EVERY source file of the package under test.

    Numba keys a cached kernel by the stamp of the file that defines it and by its signature only: neither the jit
    options (they come from `_common.jitted`) nor callees defined in other files are part of the key, so a cache filled
    before an edit of `_common.py` keeps serving the old machine code of every kernel whose own file is unchanged.  A
    check that rebuilds "from the current working tree" must therefore never reuse a cache filled from other sources."""
    import glob
    import hashlib
    h = hashlib.sha256()
    for f in sorted(glob.glob(os.path.join(REPO, "fteikpy", "**", "*.py"), recursive=True)):
        h.update(os.path.relpath(f, REPO).encode() + b"\0")
        with open(f, "rb") as fh:
            h.update(hashlib.sha256(fh.read()).digest())
    return os.path.join(VERIF, ".cache", "numba", f"{mode}-{h.hexdigest()[:16]}")


def prune_numba_caches(keep=4):
    """Keep the `keep` most recently used cache directories per mode (changed trees leave one behind each)."""
    import shutil
    root = os.path.join(VERIF, ".cache", "numba")
    if not os.path.isdir(root):
        return
    for mode in ("jit", "boundscheck"):
        ds = sorted((d for d in os.listdir(root) if d.startswith(mode + "-")),
                    key=lambda d: os.path.getmtime(os.path.join(root, d)), reverse=True)
        cur = os.path.basename(numba_cache_dir(mode))
        for d in ds[keep:]:
            if d != cur:
                shutil.rmtree(os.path.join(root, d), ignore_errors=True)


def env_for(mode, threads=None):
    env = dict(os.environ)
    env["VERIF_REPO"] = REPO
    env["PYTHONPATH"] = REPO
    env["PYTHONHASHSEED"] = "0"
    env["VERIF_SIGS"] = os.path.join(VERIF, "coq", "gen", "sigs.json")
    env["NUMBA_CACHE_DIR"] = numba_cache_dir(mode)
    env.pop("NUMBA_DISABLE_JIT", None)
    env.pop("NUMBA_BOUNDSCHECK", None)
    if mode == "interp":
        env["NUMBA_DISABLE_JIT"] = "1"
    elif mode == "boundscheck":
        env["NUMBA_BOUNDSCHECK"] = "1"
    elif mode != "jit":
        raise ValueError(mode)
    if threads:
        env["NUMBA_NUM_THREADS"] = str(threads)
    return env


def enc_arg(ty, v):
    if ty == "flt":
        return float(v).hex()
    if ty == "int":
        return int(v)
    if ty == "bool":
        return bool(v)
    if isinstance(ty, dict) and "arr" in ty:
        a = np.asarray(v)
        if ty["arr"] == "flt":
            data = [float(x).hex() for x in a.ravel(order="C")]
        else:
            data = [int(x) for x in a.ravel(order="C")]
        return {"shape": list(a.shape), "data": data}
    if isinstance(ty, dict) and "tup" in ty:
        return [enc_arg(t, x) for t, x in zip(ty["tup"], v)]
    raise ValueError(ty)


def run_cases(cases, sigs, mode, workdir, per_case_timeout=60, first_timeout=400, threads=None):
    """cases: list of (kernel id, args). Returns list of dicts {status, flat} (status 'HANG' on timeout)."""
    os.makedirs(workdir, exist_ok=True)
    cpath = os.path.join(workdir, f"impl_cases_{mode}.jsonl")
    opath = os.path.join(workdir, f"impl_out_{mode}.jsonl")
    with open(cpath, "w") as f:
        for k, args in cases:
            sig = sigs[k]
            f.write(json.dumps({"k": k, "args": [enc_arg(t, v) for (p, t), v in zip(sig["params"], args)]}) + "\n")
    if os.path.exists(opath):
        os.remove(opath)
    results = [None] * len(cases)
    start = 0
    child = os.path.join(VERIF, "harness", "impl_child.py")
    while start < len(cases):
        p = subprocess.Popen([PY, child, cpath, opath, str(start)], env=env_for(mode, threads),
                             stdout=subprocess.DEVNULL, stderr=subprocess.PIPE, text=True)
        last_progress = time.time()
        seen = 0
        began = None
        compiled_once = False
        while True:
            rc = p.poll()
            n_lines = 0
            cur_begin = None
            if os.path.exists(opath):
                with open(opath) as f:
                    for line in f:
                        try:
                            d = json.loads(line)
                        except ValueError:
                            continue
                        n_lines += 1
                        if "begin" in d:
                            cur_begin = d["i"]
                        else:
                            results[d["i"]] = {"status": d["status"],
                                               "flat": [float.fromhex(x) for x in d["flat"]]}
                            if cur_begin == d["i"]:
                                cur_begin = None
            if n_lines != seen:
                seen = n_lines
                last_progress = time.time()
            if rc is not None:
                break
            limit = per_case_timeout if compiled_once else first_timeout
            if any(r is not None for r in results[start:]):
                compiled_once = True
            if time.time() - last_progress > limit:
                p.kill()
                p.wait()
                began = cur_begin
                break
            time.sleep(0.05)
        err = p.stderr.read() if p.stderr else ""
        done = [i for i in range(start, len(cases)) if results[i] is not None]
        nxt = (max(done) + 1) if done else start
        if p.returncode == 0 and nxt >= len(cases):
            break
        # the child died or hung on case `nxt`
        if nxt < len(cases):
            results[nxt] = {"status": "HANG" if p.returncode is None or p.returncode < 0 else "CRASH",
                            "flat": [], "stderr": err[-2000:]}
        start = nxt + 1
    return results
