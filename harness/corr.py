"""Correspondence check: generated Coq model (binary64 instance) vs the implementation
(compiled and interpreted), kernel by kernel, on the same generated inputs."""
import json
import math
import os
import sys
import time

import numpy as np

sys.path.insert(0, os.path.dirname(os.path.abspath(__file__)))
import coqeval  # noqa: E402
import gens  # noqa: E402
import impl  # noqa: E402

BIG = 1.0e5


# ----------------------------------------------------------------------------- case generators
def g_interp(rs, nd):
    shape = gens.rand_shape(rs, nd, 2, 5)
    d = gens.rand_spacing(rs, nd)
    o = [float(rs.choice(gens.ORIGINS)) for _ in range(nd)]
    axes = [gens.axis(o[a], d[a], shape[a]) for a in range(nd)]
    v = rs.uniform(-3, 3, size=shape)
    q, cls = gens.query_point(rs, axes)
    fval = float(rs.choice([float("nan"), -1.0, 0.0]))
    k = "Interp2d.u_interp2d_v" if nd == 2 else "Interp3d.u_interp3d_v"
    return k, axes + [v] + q + [fval], {"cls": cls, "shape": shape}


def g_vinterp(rs, nd):
    shape = gens.rand_shape(rs, nd, 2, 5)
    d = gens.rand_spacing(rs, nd)
    o = [float(rs.choice(gens.ORIGINS)) for _ in range(nd)]
    axes = [gens.axis(o[a], d[a], shape[a]) for a in range(nd)]
    cells = tuple(n - 1 for n in shape)
    srel, scls = gens.rand_source_rel(rs, cells, d)
    src = [o[a] + srel[a] for a in range(nd)]
    grids = np.meshgrid(*axes, indexing="ij")
    s = float(rs.uniform(0.3, 2.0))
    dist = np.sqrt(sum((G - src[a]) ** 2 for a, G in enumerate(grids)))
    tt = s * dist
    if rs.rand() < 0.6:
        tt = tt * rs.uniform(0.8, 1.25, size=shape)
    if rs.rand() < 0.3:
        q = [float(x) for x in src]
        cls = "source"
    elif rs.rand() < 0.3:
        q = [float(min(max(src[a] + rs.uniform(-1, 1) * d[a], axes[a][0]), axes[a][-1])) for a in range(nd)]
        cls = "nearsource"
    else:
        q, cls = gens.query_point(rs, axes)
    fval = float(rs.choice([float("nan"), -1.0]))
    k = "Vinterp2d.u_vinterp2d_v" if nd == 2 else "Vinterp3d.u_vinterp3d_v"
    return k, axes + [tt] + q + src + [s, fval], {"cls": cls, "scls": scls, "shape": shape}


def g_tana2(rs):
    i, j = int(rs.randint(0, 9)), int(rs.randint(0, 9))
    dz, dx = gens.rand_spacing(rs, 2)
    zsa, xsa = float(rs.uniform(0, 8)), float(rs.uniform(0, 8))
    if rs.rand() < 0.3:
        zsa, xsa = float(i), float(j)
    v = float(rs.uniform(0.2, 3))
    k = rs.choice(["Fteik2d.t_ana", "Fteik2d.t_anad"])
    return k, [i, j, dz, dx, zsa, xsa, v], {}


def g_tana3(rs):
    i, j, k3 = (int(rs.randint(0, 9)) for _ in range(3))
    dz, dx, dy = gens.rand_spacing(rs, 3)
    s = [float(rs.uniform(0, 8)) for _ in range(3)]
    if rs.rand() < 0.3:
        s = [float(i), float(j), float(k3)]
    v = float(rs.uniform(0.2, 3))
    k = rs.choice(["Fteik3d.t_ana", "Fteik3d.t_anad"])
    return k, [i, j, k3, dz, dx, dy] + s + [v], {}


def g_delta(rs):
    a = [float(x) for x in rs.uniform(-1, 2, size=7)]
    dz, dx = gens.rand_spacing(rs, 2)
    vz = float(rs.uniform(0.3, 2))
    vr = float(rs.uniform(0.3, 2))
    sg = [int(rs.choice([-1, 1])), int(rs.choice([-1, 1]))]
    return "Fteik2d.delta", a + [1 / dz, 1 / dx, 1 / dz / dz, 1 / dx / dx, vz, vr] + sg, {}


def tt_field(rs, shape, d, src_idx, slow_mean):
    grids = np.meshgrid(*[np.arange(n) for n in shape], indexing="ij")
    dist = np.sqrt(sum(((G - src_idx[a]) * d[a]) ** 2 for a, G in enumerate(grids)))
    tt = slow_mean * dist * rs.uniform(0.9, 1.3, size=shape)
    m = rs.rand(*shape) < 0.25
    tt[m] = BIG
    return tt


def g_sweep2(rs, whole):
    cells = gens.rand_shape(rs, 2, 1, 6)
    nz, nx = cells[0] + 1, cells[1] + 1
    d = gens.rand_spacing(rs, 2)
    vel, kind = gens.rand_model(rs, cells)
    slow = 1.0 / vel
    srel, scls = gens.rand_source_rel(rs, cells, d, cls=rs.choice(["node", "interior"]))
    zsa, xsa = srel[0] / d[0], srel[1] / d[1]
    zsi, xsi = min(int(zsa), cells[0] - 1), min(int(xsa), cells[1] - 1)
    vzero = float(slow[zsi, xsi])
    tt = tt_field(rs, (nz, nx), d, (zsa, xsa), float(slow.mean()))
    grad = bool(rs.rand() < 0.5)
    ttsgn = np.zeros((nz, nx, 2), dtype=np.int32) if grad else np.zeros((0, 0, 0), dtype=np.int32)
    if whole:
        return ("Fteik2d.sweep2d",
                [tt, ttsgn, slow, d[0], d[1], float(zsi), float(xsi), zsa, xsa, vzero, nz, nx, grad],
                {"kind": kind, "shape": cells})
    sg = [(1, 1, 1, 1), (0, 1, -1, 1), (1, 0, 1, -1), (0, 0, -1, -1)][rs.randint(4)]
    i = int(rs.randint(1, nz)) if sg[2] == 1 else int(rs.randint(0, nz - 1))
    j = int(rs.randint(1, nx)) if sg[3] == 1 else int(rs.randint(0, nx - 1))
    dz, dx = d
    dargs = (dz, dx, 1 / dz, 1 / dx, 1 / dz / dz, 1 / dx / dx)
    return ("Fteik2d.sweep",
            [tt, ttsgn, slow, dargs, float(zsi), float(xsi), zsa, xsa, vzero, i, j] + list(sg) + [nz, nx, grad],
            {"kind": kind, "shape": cells})


def g_sweep3(rs, whole):
    cells = gens.rand_shape(rs, 3, 1, 3 if whole else 4)
    n = tuple(c + 1 for c in cells)
    d = gens.rand_spacing(rs, 3)
    vel, kind = gens.rand_model(rs, cells)
    slow = 1.0 / vel
    src = [rs.uniform(0, cells[a]) for a in range(3)]
    tt = tt_field(rs, n, d, src, float(slow.mean()))
    grad = bool(rs.rand() < 0.5)
    ttsgn = np.zeros(n + (3,), dtype=np.int32) if grad else np.zeros((0, 0, 0, 0), dtype=np.int32)
    if whole:
        return "Fteik3d.sweep3d", [tt, ttsgn, slow, d[0], d[1], d[2], n[0], n[1], n[2], grad], {"kind": kind, "shape": cells}
    sv = [int(rs.randint(0, 2)) for _ in range(3)]
    st = [1 if s == 1 else -1 for s in sv]
    idx = [int(rs.randint(1, n[a])) if st[a] == 1 else int(rs.randint(0, n[a] - 1)) for a in range(3)]
    dz, dx, dy = d
    dz2i, dx2i, dy2i = 1 / dz / dz, 1 / dx / dx, 1 / dy / dy
    dargs = (dz, dx, dy, dz2i, dx2i, dy2i, dz2i * dx2i, dz2i * dy2i, dx2i * dy2i, dz2i + dx2i + dy2i)
    return "Fteik3d.sweep", [tt, ttsgn, slow, dargs] + idx + sv + st + list(n) + [grad], {"kind": kind, "shape": cells}


def g_fteik(rs, nd):
    cells = gens.rand_shape(rs, nd, 1, 6 if nd == 2 else 3)
    d = gens.rand_spacing(rs, nd)
    vel, kind = gens.rand_model(rs, cells)
    slow = 1.0 / vel
    if rs.rand() < 0.12:
        lo = [0.0] * nd
        hi = [d[a] * cells[a] for a in range(nd)]
        src, scls = gens.outside_point(rs, lo, hi)
        scls = "outside:" + scls
    else:
        src, scls = gens.rand_source_rel(rs, cells, d)
    nsweep = int(rs.choice([1, 2, 3]))
    grad = bool(rs.rand() < 0.5)
    k = "Fteik2d.fteik2d" if nd == 2 else "Fteik3d.fteik3d"
    meta = {"kind": kind, "shape": cells, "scls": scls}
    if max(d) / min(d) >= 4:
        # (finding F23) a gradient component is a difference quotient of traveltimes across one cell, normalised: in cells
        # elongated >= 4:1 a rounding-size difference dt of the traveltimes (the model is plain IEEE, the interpreter uses
        # pow, the compiled build contracts to FMA) becomes 2 dt / (d_min * |grad t|) of the unit vector; |grad t| is
        # about the local slowness.  Entries of magnitude <= 1 get that much slack in such cases.
        meta["grad_amp"] = float(1.0 / (min(d) * float(np.min(slow))))
    return k, [slow] + list(d) + list(src) + [nsweep, grad], meta


def g_shrink(rs):
    n = int(rs.choice([2, 3]))
    lower = rs.uniform(-2, 2, size=n)
    upper = lower + rs.uniform(0.1, 2, size=n)
    pcur = lower + (upper - lower) * rs.uniform(0, 1, size=n)
    if rs.rand() < 0.3:
        a = rs.randint(n)
        pcur[a] = lower[a] if rs.rand() < 0.5 else upper[a]
    delta = rs.uniform(-1.5, 1.5, size=n)
    return "FteikCommon.shrink", [pcur, delta, lower, upper], {}


def g_ray(rs, nd):
    shape = gens.rand_shape(rs, nd, 2, 6 if nd == 2 else 4)
    d = gens.rand_spacing(rs, nd)
    o = [float(rs.choice(gens.ORIGINS)) for _ in range(nd)]
    axes = [gens.axis(o[a], d[a], shape[a]) for a in range(nd)]
    cells = tuple(n - 1 for n in shape)
    srel, scls = gens.rand_source_rel(rs, cells, d)
    src = np.array([o[a] + srel[a] for a in range(nd)])
    grids = np.meshgrid(*axes, indexing="ij")
    comps = [(G - src[a]) for a, G in enumerate(grids)]
    if rs.rand() < 0.5:
        comps = [c + rs.normal(0, 0.15 * min(d), size=shape) for c in comps]
    nrm = np.sqrt(sum(c * c for c in comps))
    nrm[nrm == 0] = 1.0
    comps = [np.ascontiguousarray(c / nrm) for c in comps]
    if rs.rand() < 0.1:
        lo = [float(ax[0]) for ax in axes]
        hi = [float(ax[-1]) for ax in axes]
        p, cls = gens.outside_point(rs, lo, hi)
        cls = "outside:" + cls
    else:
        p, cls = gens.query_point(rs, axes, cls=rs.choice(["interior", "node", "face", "edgecorner", "line"]))
    honor = bool(rs.rand() < 0.5)
    stepsize = float(min(d)) if honor or rs.rand() < 0.6 else float(min(d) * rs.uniform(0.2, 1.5))
    diag = math.sqrt(sum((shape[a] * d[a]) ** 2 for a in range(nd)))
    max_step = int(2.0 * diag / stepsize) if rs.rand() < 0.8 else int(rs.randint(1, 6))
    k = "Ray2d.ray2d_1" if nd == 2 else "Ray3d.ray3d_1"
    return (k, axes + comps + [np.array(p), src, stepsize, max_step, honor],
            {"cls": cls, "scls": scls, "shape": shape, "honor": honor})


def g_solve_list(rs, nd):
    k, args, meta = g_fteik(rs, nd)
    slow = args[0]
    d = args[1:1 + nd]
    cells = slow.shape
    n = int(rs.randint(1, 4))
    srcs = []
    for _ in range(n):
        if rs.rand() < 0.1:
            srcs.append(gens.outside_point(rs, [0.0] * nd, [d[a] * cells[a] for a in range(nd)])[0])
        else:
            srcs.append(list(gens.rand_source_rel(rs, cells, d)[0]))
    kk = "Fteik2d.solve2d_n" if nd == 2 else "Fteik3d.solve3d_n"
    return kk, [slow] + list(d) + [np.array(srcs, dtype=float), args[-2], args[-1]], dict(meta, n=n)


def g_interp_list(rs, nd, vint=False):
    if vint:
        k, args, meta = g_vinterp(rs, nd)
        axes, v = args[:nd], args[nd]
        src = args[nd + 1 + nd: nd + 1 + 2 * nd]
        s, fval = args[-2], args[-1]
    else:
        k, args, meta = g_interp(rs, nd)
        axes, v, fval = args[:nd], args[nd], args[-1]
    n = int(rs.randint(1, 5))
    q = np.array([gens.query_point(rs, axes)[0] for _ in range(n)], dtype=float)
    if vint:
        kk = "Vinterp2d.vinterp2d_n" if nd == 2 else "Vinterp3d.vinterp3d_n"
        return kk, axes + [v, q, np.array(src, dtype=float), s, fval], dict(meta, n=n)
    kk = "Interp2d.interp2d_n" if nd == 2 else "Interp3d.interp3d_n"
    return kk, axes + [v, q, fval], dict(meta, n=n)


def g_ray_list(rs, nd):
    k, args, meta = g_ray(rs, nd)
    axes = args[:nd]
    n = int(rs.randint(1, 4))
    pts = [args[2 * nd]]
    for _ in range(n - 1):
        pts.append(np.array(gens.query_point(rs, axes, cls=rs.choice(["interior", "node", "face", "outside"], p=[.5, .2, .2, .1]))[0]))
    kk = "Ray2d.ray2d_n" if nd == 2 else "Ray3d.ray3d_n"
    new = list(args)
    new[2 * nd] = np.array(pts, dtype=float)
    return kk, new, dict(meta, n=n)


GROUPS = {
    "solve2d_list": lambda rs: g_solve_list(rs, 2),
    "solve3d_list": lambda rs: g_solve_list(rs, 3),
    "interp2d_list": lambda rs: g_interp_list(rs, 2),
    "interp3d_list": lambda rs: g_interp_list(rs, 3),
    "vinterp2d_list": lambda rs: g_interp_list(rs, 2, True),
    "vinterp3d_list": lambda rs: g_interp_list(rs, 3, True),
    "ray2d_list": lambda rs: g_ray_list(rs, 2),
    "ray3d_list": lambda rs: g_ray_list(rs, 3),
    "interp2d": lambda rs: g_interp(rs, 2),
    "interp3d": lambda rs: g_interp(rs, 3),
    "vinterp2d": lambda rs: g_vinterp(rs, 2),
    "vinterp3d": lambda rs: g_vinterp(rs, 3),
    "tana2d": g_tana2,
    "tana3d": g_tana3,
    "delta": g_delta,
    "sweep2d_call": lambda rs: g_sweep2(rs, False),
    "sweep2d": lambda rs: g_sweep2(rs, True),
    "sweep3d_call": lambda rs: g_sweep3(rs, False),
    "sweep3d": lambda rs: g_sweep3(rs, True),
    "fteik2d": lambda rs: g_fteik(rs, 2),
    "fteik3d": lambda rs: g_fteik(rs, 3),
    "shrink": g_shrink,
    "ray2d": lambda rs: g_ray(rs, 2),
    "ray3d": lambda rs: g_ray(rs, 3),
}


# ----------------------------------------------------------------------------- comparison
def close(a, b, scale, rtol=1e-9, amp=None):
    if math.isnan(a) or math.isnan(b):
        return math.isnan(a) and math.isnan(b)
    if a == b:
        return True
    if math.isinf(a) or math.isinf(b):
        return False
    tol = rtol * scale + 4 * math.ulp(max(abs(a), abs(b)))
    if amp and max(abs(a), abs(b)) <= 1.0 + 1e-12:
        tol += 2 * rtol * scale * amp
    return abs(a - b) <= tol


def compare(x, y, rtol=1e-9, amp=None):
    """x, y: {'status', 'flat'}; returns None if they agree, else a short description"""
    if x["status"] != y["status"]:
        return f"status {x['status']} vs {y['status']}"
    fa, fb = x["flat"], y["flat"]
    if len(fa) != len(fb):
        return f"length {len(fa)} vs {len(fb)}"
    fin = [abs(v) for v in fa + fb if not (math.isnan(v) or math.isinf(v)) and abs(v) < 0.99 * BIG]
    scale = max(fin) if fin else 1.0
    for k, (a, b) in enumerate(zip(fa, fb)):
        if not close(a, b, scale, rtol, amp):
            return f"value[{k}] {a!r} vs {b!r} (scale {scale:g})"
    return None


def coq_result(vals, can_raise):
    if can_raise:
        st = int(vals[0])
        return {"status": st, "flat": vals[1:]}
    return {"status": 0, "flat": vals}


def run(groups, n_per_group, seed, workdir, modes=("jit", "interp"), jobs=8):
    sigs = coqeval.load_sigs()
    rs = np.random.RandomState(seed)
    cases, metas = [], []
    for g in groups:
        grs = np.random.RandomState(rs.randint(2 ** 31))
        for _ in range(n_per_group):
            k, args, meta = GROUPS[g](grs)
            meta["group"] = g
            cases.append((k, args))
            metas.append(meta)
    t0 = time.time()
    terms = [coqeval.case_term(sigs[k], args) for k, args in cases]
    coq_vals = coqeval.run_terms(terms, os.path.join(workdir, "coq"), jobs=jobs)
    t_coq = time.time() - t0
    model = [coq_result(v, sigs[k]["can_raise"]) for v, (k, _) in zip(coq_vals, cases)]
    impls = {}
    for m in modes:
        impls[m] = impl.run_cases(cases, sigs, m, workdir)
    report = {"cases": len(cases), "groups": {}, "failures": [], "unstable": [], "hangs": [],
              "t_coq": t_coq, "t_total": None}
    for idx, ((k, args), meta) in enumerate(zip(cases, metas)):
        g = meta["group"]
        gr = report["groups"].setdefault(g, {"n": 0, "agree": 0, "raise": 0, "classes": {}})
        gr["n"] += 1
        c = str(meta.get("cls", meta.get("scls", meta.get("kind", "-"))))
        gr["classes"][c] = gr["classes"].get(c, 0) + 1
        if model[idx]["status"] != 0:
            gr["raise"] += 1
        rj = impls.get("jit", [None] * len(cases))[idx]
        ri = impls.get("interp", [None] * len(cases))[idx]
        present = [r for r in (rj, ri) if r is not None]
        if any(r["status"] in ("HANG", "CRASH") for r in present):
            report["hangs"].append({"index": idx, "kernel": k, "meta": meta_json(meta),
                                    "model_status": model[idx]["status"]})
            continue
        amp = meta.get("grad_amp")
        if rj is not None and ri is not None and compare(rj, ri, amp=amp) is not None:
            report["unstable"].append({"index": idx, "kernel": k, "why": compare(rj, ri, amp=amp), "meta": meta_json(meta)})
            # the model must still agree with one of them at branch level
            if compare(model[idx], rj, amp=amp) is None or compare(model[idx], ri, amp=amp) is None:
                gr["agree"] += 1
                continue
        bad = None
        for name, r in (("jit", rj), ("interp", ri)):
            if r is None:
                continue
            why = compare(model[idx], r, amp=meta.get("grad_amp"))
            if why is not None:
                bad = f"model vs {name}: {why}"
                break
        if bad:
            report["failures"].append({"index": idx, "kernel": k, "why": bad, "meta": meta_json(meta),
                                       "args": args_json(sigs[k], args)})
        else:
            gr["agree"] += 1
    report["t_total"] = time.time() - t0
    return report


def meta_json(meta):
    return {k: (list(v) if isinstance(v, tuple) else v) for k, v in meta.items()}


def args_json(sig, args):
    return [impl.enc_arg(t, v) for (p, t), v in zip(sig["params"], args)]


if __name__ == "__main__":
    import argparse
    ap = argparse.ArgumentParser()
    ap.add_argument("--groups", default=",".join(GROUPS))
    ap.add_argument("-n", type=int, default=20)
    ap.add_argument("--seed", type=int, default=1)
    ap.add_argument("--work", default=os.path.join(coqeval.VERIF, "work", "corr"))
    ap.add_argument("--modes", default="jit,interp")
    a = ap.parse_args()
    rep = run(a.groups.split(","), a.n, a.seed, a.work, modes=tuple(a.modes.split(",")))
    print(json.dumps({k: v for k, v in rep.items() if k != "failures"}, indent=1)[:6000])
    for f in rep["failures"][:20]:
        print("FAIL", f["kernel"], f["why"], f["meta"])
    print("failures:", len(rep["failures"]), "unstable:", len(rep["unstable"]), "hangs:", len(rep["hangs"]))
