"""Compile every kernel once so that later checks start from a warm on-disk cache."""
import os
import sys
sys.path.insert(0, os.environ.get("VERIF_REPO", "/repo"))
import numpy as np
from fteikpy import Eikonal2D, Eikonal3D

for E, nd in ((Eikonal2D, 2), (Eikonal3D, 3)):
    e = E(np.ones((3,) * nd), (1.0,) * nd)
    s = np.full(nd, 1.3)
    t = e.solve(s, return_gradient=True)
    e.solve(np.array([s, s]), return_gradient=True)
    e.solve(s)
    p = np.full(nd, 2.2)
    t(p), t(np.array([p, p])), e(p), e(np.array([p, p]))
    for h in (False, True):
        t.raytrace(p, honor_grid=h)
        t.raytrace(np.array([p, p]), honor_grid=h)
print("warm")
