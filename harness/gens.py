"""Input generators shared by the correspondence check and the implementation-level oracles.

Everything is derived from one numpy RandomState so a seed replays exactly."""
import math

import numpy as np

SPACINGS = [0.1, 0.5, 1.0, 2.0, 3.7, 25.0]
ORIGINS = [0.0, -64.0, 8.0, 1024.0, 0.3]


def axis(o, d, n):
    return o + d * np.arange(n)


def rand_model(rs, shape, kind=None):
    """velocity model (cells), positive and finite"""
    kind = kind or rs.choice(["homog", "layered", "halves", "gradient", "lognormal"])
    nd = len(shape)
    if kind == "homog":
        v = np.full(shape, float(rs.choice([0.5, 1.0, 2.0, 3.5, 1500.0])))
    elif kind == "layered":
        ax = rs.randint(nd)
        prof = rs.uniform(1.0, 4.0, size=shape[ax])
        sh = [1] * nd
        sh[ax] = shape[ax]
        v = np.broadcast_to(prof.reshape(sh), shape).copy()
    elif kind == "halves":
        ax = rs.randint(nd)
        cut = rs.randint(0, shape[ax] + 1)
        idx = np.arange(shape[ax])
        prof = np.where(idx < cut, 1.0, float(rs.choice([1.5, 2.0, 4.0])))
        sh = [1] * nd
        sh[ax] = shape[ax]
        v = np.broadcast_to(prof.reshape(sh), shape).copy()
    elif kind == "gradient":
        g = rs.uniform(-0.2, 0.2, size=nd)
        grids = np.meshgrid(*[np.arange(n) for n in shape], indexing="ij")
        v = 2.0 + sum(gi * G for gi, G in zip(g, grids))
        v = np.maximum(v, 0.3)
    else:
        v = np.exp(rs.normal(0.0, 0.3, size=shape)) * 2.0
    return np.ascontiguousarray(v, dtype=np.float64), kind


def rand_shape(rs, nd, lo=1, hi=7):
    return tuple(int(rs.randint(lo, hi + 1)) for _ in range(nd))


def rand_spacing(rs, nd):
    if rs.rand() < 0.4:
        d = float(rs.choice(SPACINGS))
        return tuple([d] * nd)
    return tuple(float(rs.choice(SPACINGS)) for _ in range(nd))


def nudge(x, k):
    for _ in range(abs(k)):
        x = math.nextafter(x, math.inf if k > 0 else -math.inf)
    return x


def rand_source_rel(rs, shape, d, cls=None):
    """source position relative to the origin, in the closed domain [0, n*d]; returns (pos, class)"""
    classes = ["node", "line", "interior", "nearline", "far", "corner", "kd", "origin"]
    cls = cls or rs.choice(classes)
    nd = len(shape)
    pos = []
    for a in range(nd):
        n, h = shape[a], d[a]
        hi = h * n
        if cls == "node":
            x = h * rs.randint(0, n + 1)
        elif cls == "line":
            x = h * rs.randint(0, n + 1) if (a == 0) == (rs.rand() < 0.5) else rs.uniform(0, hi)
        elif cls == "interior":
            x = rs.uniform(0, hi)
        elif cls == "nearline":
            x = h * rs.randint(0, n + 1)
            x = x + rs.choice([1e-6, -1e-6, 1e-9, -1e-9, 1e-12, -1e-12]) * h if rs.rand() < 0.5 \
                else nudge(x, int(rs.choice([-2, -1, 1, 2])))
        elif cls == "far":
            x = hi if rs.rand() < 0.7 else rs.uniform(0, hi)
        elif cls == "corner":
            x = hi if rs.rand() < 0.5 else 0.0
        elif cls == "kd":
            k = rs.randint(0, n + 1)
            x = sum([h] * k) if rs.rand() < 0.5 else k * h
        else:
            x = 0.0
        pos.append(min(max(float(x), 0.0), hi))
    return tuple(pos), cls


def outside_point(rs, lo, hi):
    """a coordinate vector with at least one component outside [lo, hi] (or NaN)"""
    nd = len(lo)
    p = [rs.uniform(lo[a], hi[a]) for a in range(nd)]
    a = rs.randint(nd)
    how = rs.choice(["ulp_hi", "ulp_lo", "far_hi", "far_lo", "nan"])
    if how == "ulp_hi":
        p[a] = nudge(hi[a], 1)
    elif how == "ulp_lo":
        p[a] = nudge(lo[a], -1)
    elif how == "far_hi":
        p[a] = hi[a] + abs(hi[a] - lo[a]) * rs.uniform(0.1, 10) + 1.0
    elif how == "far_lo":
        p[a] = lo[a] - abs(hi[a] - lo[a]) * rs.uniform(0.1, 10) - 1.0
    else:
        p[a] = float("nan")
    return [float(x) for x in p], how


def query_point(rs, axes, cls=None):
    """query point for interpolation: interior / node / faces / outside"""
    cls = cls or rs.choice(["interior", "node", "face", "edgecorner", "line", "outside"],
                           p=[0.3, 0.15, 0.2, 0.15, 0.1, 0.1])
    nd = len(axes)
    lo = [float(ax[0]) for ax in axes]
    hi = [float(ax[-1]) for ax in axes]
    if cls == "outside":
        p, how = outside_point(rs, lo, hi)
        return p, "outside:" + how
    p = []
    kface = rs.randint(nd)
    for a, ax in enumerate(axes):
        if cls == "interior":
            x = rs.uniform(lo[a], hi[a])
        elif cls == "node":
            x = ax[rs.randint(len(ax))]
        elif cls == "face":
            x = rs.choice([lo[a], hi[a]]) if a == kface else rs.uniform(lo[a], hi[a])
        elif cls == "edgecorner":
            x = rs.choice([lo[a], hi[a]]) if rs.rand() < 0.8 else rs.uniform(lo[a], hi[a])
        else:
            x = ax[rs.randint(len(ax))] if rs.rand() < 0.5 else rs.uniform(lo[a], hi[a])
        p.append(float(x))
    return p, cls
