#!/venv/bin/python
"""Re-run the input recorded in a replay file against the implementation (one build per call) and print what is observed.
usage: replay_child.py <replay.json>"""
import json
import sys

import numpy as np


def fl(xs):
    return [float.fromhex(x) if isinstance(x, str) else float(x) for x in xs]


def main():
    r = json.load(open(sys.argv[1]))
    viol = r.get("violation") or {}
    rep = viol.get("replay") or {}
    if "last_input" in rep and isinstance(rep["last_input"], dict):
        rep = rep["last_input"]
    hexes = rep.get("velocity_hex") or rep.get("v_hex")
    shape = rep.get("velocity_shape") or rep.get("cells")
    if not hexes or not shape:
        print("  (no model in this replay: nothing to re-run; the file names the theorem or correspondence that no longer checks)")
        return 0
    import fteikpy
    v = np.array(fl(hexes)).reshape(shape)
    d = rep.get("gridsize") or rep.get("d")
    o = rep.get("origin") or rep.get("o") or [0.0] * v.ndim
    src = rep.get("source_hex") or rep.get("src") or rep.get("source")
    src = np.array(fl(np.ravel(src).tolist() if not isinstance(src, list) or not isinstance(src[0], str) else src))
    nd = v.ndim
    if src.size > nd:
        src = src.reshape(-1, nd)
    E = (fteikpy.Eikonal2D if nd == 2 else fteikpy.Eikonal3D)(v, d, o)
    kw = {}
    if "nsweep" in rep:
        kw["nsweep"] = int(rep["nsweep"])
    try:
        tts = E.solve(src, return_gradient=True, **kw)
    except Exception as ex:  # noqa: BLE001
        print(f"  solve raised {type(ex).__name__}: {ex}")
        return 1
    bad = 0
    for k, tt in enumerate(tts if isinstance(tts, list) else [tts]):
        g = tt.grid
        print(f"  solve[{k}]: shape {g.shape} min {g.min()!r} at {tuple(int(x) for x in np.unravel_index(g.argmin(), g.shape))} max {g.max()!r} "
              f"finite {bool(np.isfinite(g).all())} zeros {int((g == 0).sum())} vzero {tt._vzero!r}")
        bad += int((g < 0).any() or not np.isfinite(g).all())
        G = np.meshgrid(*[o[a] + d[a] * np.arange(g.shape[a]) for a in range(nd)], indexing="ij")
        s_ = np.asarray(tt.source, dtype=float)
        dist = np.sqrt(sum((G[a] - s_[a]) ** 2 for a in range(nd)))
        smin = float((1 / v).min())
        print(f"           largest lower-bound deficit (smin*dist - T) in cells along the longest side: {float(((smin * dist - g) / (max(d) * smin)).max()):.3f}")
        for key in ("end_point_hex", "point_hex"):
            if key in rep:
                p = np.array(fl(rep[key]))
                for hg in ([bool(rep["honor_grid"])] if "honor_grid" in rep else [False, True]):
                    try:
                        ray = tt.raytrace(p, honor_grid=hg, **(rep.get("kwargs") or {}))
                        print(f"  raytrace(honor_grid={hg}): {len(ray)} vertices, first {ray[0].tolist()} last {ray[-1].tolist()}")
                    except Exception as ex:  # noqa: BLE001
                        print(f"  raytrace(honor_grid={hg}) raised {type(ex).__name__}: {ex}")
        if "points_hex" in rep:
            pts = np.array(fl(np.ravel(rep["points_hex"]).tolist())).reshape(-1, nd)
            try:
                print(f"  tt(points) = {tt(pts).tolist()}")
            except Exception as ex:  # noqa: BLE001
                print(f"  tt(points) raised {type(ex).__name__}: {ex}")
    return 1 if bad else 0


if __name__ == "__main__":
    sys.exit(main())
