"""Child process that runs one implementation-level oracle and writes its result as JSON.

usage: oracle_run.py Cxx --seed S -n N --out FILE [--ctx JSON]
The parent chooses the execution mode through NUMBA_* environment variables."""
import argparse
import json
import os
import sys
import time

sys.path.insert(0, os.environ.get("VERIF_REPO", "/repo"))
sys.path.insert(0, os.path.dirname(os.path.abspath(__file__)))
import numpy as np  # noqa: E402


def main():
    ap = argparse.ArgumentParser()
    ap.add_argument("pid")
    ap.add_argument("--seed", type=int, default=1)
    ap.add_argument("-n", type=int, default=50)
    ap.add_argument("--out", required=True)
    ap.add_argument("--ctx", default="{}")
    a = ap.parse_args()
    import oracles
    import oracles2
    fn = getattr(oracles, "oracle_" + a.pid, None) or getattr(oracles2, "oracle_" + a.pid)
    ctx = json.loads(a.ctx)
    prog = a.out + ".progress"

    def progress(obj):
        with open(prog, "w") as f:
            json.dump(obj, f, default=str)

    ctx["progress"] = progress
    rs = np.random.RandomState(a.seed)
    t0 = time.time()
    import traceback
    partial = oracles.Result()
    ctx["partial"] = partial
    try:
        with np.errstate(all="ignore"):
            res = fn(rs, a.n, ctx)
        out = res.to_json()
    except Exception as ex:  # noqa: BLE001
        # an exception escaping the oracle is itself a finding about the implementation (the oracles catch what
        # the properties allow to be raised): report it with the traceback and the last recorded input
        last = None
        try:
            last = json.load(open(prog))
        except Exception:  # noqa: BLE001
            pass
        out = {"evaluations": 0, "distinct_nontrivial": 0, "samples": [], "stats": {},
               "violations": [{"key": f"{a.pid}:unexpected-{type(ex).__name__}",
                               "what": f"{type(ex).__name__}: {ex} (escaped the oracle; traceback in the replay)",
                               "replay": {"traceback": traceback.format_exc()[-3000:], "last_input": last, "seed": a.seed}}]}
    out["wall_s"] = time.time() - t0
    with open(a.out, "w") as f:
        json.dump(out, f, default=str)


if __name__ == "__main__":
    main()
