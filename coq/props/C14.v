(* C14  Grid evaluation is multilinear interpolation on the node axes (model: gen/Interp2d.v, gen/Interp3d.v)
   Only statements and `exact`: the proofs are in proofs/.  Written by tools/mkprops.py from Coq's own printing of the
   lemma statements; every statement is in full below so that it cannot be weakened without this file changing. *)
From Coq Require Import ZArith List Bool Reals Lia Lra.
From FT.lib Require Import Num Arr ArrLemmas Lower NumArr.
From FT.gen Require Import Common Interp2d Interp3d Vinterp2d Vinterp3d FteikCommon Fteik2d Fteik3d Ray2d Ray3d.
From FT.model Require Import Api.
From FT.proofs Require Import SSR InterpR Interp3R.
From FT.proofs Require ApiGenEq.
Import ListNotations.
Open Scope R_scope.

(* every numeric instance (binary64 with NaN included): outside the hull - or for a NaN coordinate, whose comparisons are false - the fill value is returned *)
Theorem C14_interp2d_outside :
  forall (T : Type) (H : Num T) (x y v : arr T) (xq yq fval : T),
       nleb (get (nofZ 0) x [0%Z]) xq && nleb xq (get (nofZ 0) x [(dim x 0 - 1)%Z]) &&
       (nleb (get (nofZ 0) y [0%Z]) yq && nleb yq (get (nofZ 0) y [(dim y 0 - 1)%Z])) = false ->
       u_interp2d_v x y v xq yq fval = fval.
Proof. exact @InterpR.interp2d_outside. Qed.

(* inside the hull (boundary included) the kernel equals the textbook bilinear formula on the enclosing cell (the last cell on a far face); axis = ascending, at least two nodes *)
Theorem C14_interp2d_is_bilinear :
  forall (x y v : arr R) (nx ny : Z) (xq yq fval : R),
       axis x nx ->
       axis y ny ->
       shape v = [nx; ny] ->
       get 0 x [0%Z] <= xq <= get 0 x [(nx - 1)%Z] ->
       get 0 y [0%Z] <= yq <= get 0 y [(ny - 1)%Z] ->
       u_interp2d_v x y v xq yq fval = bilin x y v (cell x nx xq) (cell y ny yq) xq yq.
Proof. exact @InterpR.interp2d_spec. Qed.

(* node values are reproduced at every node, far faces and corners included *)
Theorem C14_interp2d_node :
  forall (x y v : arr R) (nx ny : Z),
       axis x nx ->
       axis y ny ->
       shape v = [nx; ny] ->
       forall (k l : Z) (fval : R),
       (0 <= k < nx)%Z -> (0 <= l < ny)%Z -> u_interp2d_v x y v (get 0 x [k]) (get 0 y [l]) fval = get 0 v [k; l].
Proof. exact @InterpR.interp2d_node. Qed.

(* the value lies between the minimum and the maximum of the enclosing cell's corner values *)
Theorem C14_interp2d_convex :
  forall (x y v : arr R) (nx ny : Z),
       axis x nx ->
       axis y ny ->
       shape v = [nx; ny] ->
       forall xq yq fval : R,
       get 0 x [0%Z] <= xq <= get 0 x [(nx - 1)%Z] ->
       get 0 y [0%Z] <= yq <= get 0 y [(ny - 1)%Z] ->
       forall lo hi : R,
       let i := cell x nx xq in
       let j := cell y ny yq in
       lo <= get 0 v [i; j] <= hi ->
       lo <= get 0 v [(i + 1)%Z; j] <= hi ->
       lo <= get 0 v [i; (j + 1)%Z] <= hi ->
       lo <= get 0 v [(i + 1)%Z; (j + 1)%Z] <= hi -> lo <= u_interp2d_v x y v xq yq fval <= hi.
Proof. exact @InterpR.interp2d_convex. Qed.

(* any function a + b x + c y + d x y is reproduced exactly *)
Theorem C14_interp2d_multilinear_exact :
  forall (x y v : arr R) (nx ny : Z),
       axis x nx ->
       axis y ny ->
       shape v = [nx; ny] ->
       forall xq yq fval : R,
       get 0 x [0%Z] <= xq <= get 0 x [(nx - 1)%Z] ->
       get 0 y [0%Z] <= yq <= get 0 y [(ny - 1)%Z] ->
       forall a b c d : R,
       (forall i j : Z,
        (0 <= i < nx)%Z ->
        (0 <= j < ny)%Z -> get 0 v [i; j] = a + b * get 0 x [i] + c * get 0 y [j] + d * get 0 x [i] * get 0 y [j]) ->
       u_interp2d_v x y v xq yq fval = a + b * xq + c * yq + d * xq * yq.
Proof. exact @InterpR.interp2d_multilinear_exact. Qed.

(* the values computed from the two cells sharing a face agree on the face *)
Theorem C14_interp2d_continuous_faces :
  forall (x y v : arr R) (nx ny : Z),
       axis x nx ->
       axis y ny ->
       (forall (k j : Z) (yq : R),
        (0 < k < nx - 1)%Z -> bilin x y v (k - 1) j (get 0 x [k]) yq = bilin x y v k j (get 0 x [k]) yq) /\
       (forall (i l : Z) (xq : R),
        (0 < l < ny - 1)%Z -> bilin x y v i (l - 1) xq (get 0 y [l]) = bilin x y v i l xq (get 0 y [l])).
Proof. exact @InterpR.interp2d_continuous_faces. Qed.

(* relabelling the two axes (with the transposed field) does not change the value *)
Theorem C14_interp2d_axis_swap :
  forall (x y v vt : arr R) (nx ny : Z) (xq yq fval : R),
       axis x nx ->
       axis y ny ->
       shape v = [nx; ny] ->
       shape vt = [ny; nx] ->
       (forall i j : Z, (0 <= i < nx)%Z -> (0 <= j < ny)%Z -> get 0 vt [j; i] = get 0 v [i; j]) ->
       u_interp2d_v x y v xq yq fval = u_interp2d_v y x vt yq xq fval.
Proof. exact @InterpR.interp2d_axis_swap. Qed.

(* 3D: fill value outside the hull / for NaN, every numeric instance *)
Theorem C14_interp3d_outside :
  forall (T : Type) (H : Num T) (x y z v : arr T) (xq yq zq fval : T),
       nleb (get (nofZ 0) x [0%Z]) xq && nleb xq (get (nofZ 0) x [(dim x 0 - 1)%Z]) &&
       (nleb (get (nofZ 0) y [0%Z]) yq && nleb yq (get (nofZ 0) y [(dim y 0 - 1)%Z])) &&
       (nleb (get (nofZ 0) z [0%Z]) zq && nleb zq (get (nofZ 0) z [(dim z 0 - 1)%Z])) = false ->
       u_interp3d_v x y z v xq yq zq fval = fval.
Proof. exact @Interp3R.interp3d_outside. Qed.

(* 3D: equals the textbook trilinear formula on the enclosing cell *)
Theorem C14_interp3d_is_trilinear :
  forall (x y z v : arr R) (nx ny nz : Z) (xq yq zq fval : R),
       axis x nx ->
       axis y ny ->
       axis z nz ->
       shape v = [nx; ny; nz] ->
       get 0 x [0%Z] <= xq <= get 0 x [(nx - 1)%Z] ->
       get 0 y [0%Z] <= yq <= get 0 y [(ny - 1)%Z] ->
       get 0 z [0%Z] <= zq <= get 0 z [(nz - 1)%Z] ->
       u_interp3d_v x y z v xq yq zq fval = trilin x y z v (cell x nx xq) (cell y ny yq) (cell z nz zq) xq yq zq.
Proof. exact @Interp3R.interp3d_spec. Qed.

(* 3D: node values reproduced *)
Theorem C14_interp3d_node :
  forall (x y z v : arr R) (nx ny nz : Z),
       axis x nx ->
       axis y ny ->
       axis z nz ->
       shape v = [nx; ny; nz] ->
       forall (k l m : Z) (fval : R),
       (0 <= k < nx)%Z ->
       (0 <= l < ny)%Z ->
       (0 <= m < nz)%Z -> u_interp3d_v x y z v (get 0 x [k]) (get 0 y [l]) (get 0 z [m]) fval = get 0 v [k; l; m].
Proof. exact @Interp3R.interp3d_node. Qed.

(* 3D: between min and max of the eight corners *)
Theorem C14_interp3d_convex :
  forall (x y z v : arr R) (nx ny nz : Z),
       axis x nx ->
       axis y ny ->
       axis z nz ->
       shape v = [nx; ny; nz] ->
       forall xq yq zq fval : R,
       get 0 x [0%Z] <= xq <= get 0 x [(nx - 1)%Z] ->
       get 0 y [0%Z] <= yq <= get 0 y [(ny - 1)%Z] ->
       get 0 z [0%Z] <= zq <= get 0 z [(nz - 1)%Z] ->
       forall lo hi : R,
       let i := cell x nx xq in
       let j := cell y ny yq in
       let k := cell z nz zq in
       lo <= get 0 v [i; j; k] <= hi ->
       lo <= get 0 v [(i + 1)%Z; j; k] <= hi ->
       lo <= get 0 v [i; (j + 1)%Z; k] <= hi ->
       lo <= get 0 v [(i + 1)%Z; (j + 1)%Z; k] <= hi ->
       lo <= get 0 v [i; j; (k + 1)%Z] <= hi ->
       lo <= get 0 v [(i + 1)%Z; j; (k + 1)%Z] <= hi ->
       lo <= get 0 v [i; (j + 1)%Z; (k + 1)%Z] <= hi ->
       lo <= get 0 v [(i + 1)%Z; (j + 1)%Z; (k + 1)%Z] <= hi -> lo <= u_interp3d_v x y z v xq yq zq fval <= hi.
Proof. exact @Interp3R.interp3d_convex. Qed.

(* 3D: the eight-term trilinear polynomial is reproduced exactly *)
Theorem C14_interp3d_multilinear_exact :
  forall (x y z v : arr R) (nx ny nz : Z),
       axis x nx ->
       axis y ny ->
       axis z nz ->
       shape v = [nx; ny; nz] ->
       forall xq yq zq fval : R,
       get 0 x [0%Z] <= xq <= get 0 x [(nx - 1)%Z] ->
       get 0 y [0%Z] <= yq <= get 0 y [(ny - 1)%Z] ->
       get 0 z [0%Z] <= zq <= get 0 z [(nz - 1)%Z] ->
       forall a b c d e f g h : R,
       let p := fun X Y Z : R => a + b * X + c * Y + d * Z + e * X * Y + f * X * Z + g * Y * Z + h * X * Y * Z in
       (forall i j k : Z,
        (0 <= i < nx)%Z ->
        (0 <= j < ny)%Z -> (0 <= k < nz)%Z -> get 0 v [i; j; k] = p (get 0 x [i]) (get 0 y [j]) (get 0 z [k])) ->
       u_interp3d_v x y z v xq yq zq fval = p xq yq zq.
Proof. exact @Interp3R.interp3d_multilinear_exact. Qed.

(* 3D: continuity across the faces of all three axes *)
Theorem C14_interp3d_continuous_faces :
  forall (x y z v : arr R) (nx ny nz : Z),
       axis x nx ->
       axis y ny ->
       axis z nz ->
       (forall (k j l : Z) (yq zq : R),
        (0 < k < nx - 1)%Z -> trilin x y z v (k - 1) j l (get 0 x [k]) yq zq = trilin x y z v k j l (get 0 x [k]) yq zq) /\
       (forall (i k l : Z) (xq zq : R),
        (0 < k < ny - 1)%Z -> trilin x y z v i (k - 1) l xq (get 0 y [k]) zq = trilin x y z v i k l xq (get 0 y [k]) zq) /\
       (forall (i j k : Z) (xq yq : R),
        (0 < k < nz - 1)%Z -> trilin x y z v i j (k - 1) xq yq (get 0 z [k]) = trilin x y z v i j k xq yq (get 0 z [k])).
Proof. exact @Interp3R.interp3d_continuous_faces. Qed.

(* 3D: swapping the first two axes *)
Theorem C14_interp3d_axis_swap_xy :
  forall (x y z v vt : arr R) (nx ny nz : Z) (xq yq zq fval : R),
       axis x nx ->
       axis y ny ->
       axis z nz ->
       shape v = [nx; ny; nz] ->
       shape vt = [ny; nx; nz] ->
       (forall i j k : Z,
        (0 <= i < nx)%Z -> (0 <= j < ny)%Z -> (0 <= k < nz)%Z -> get 0 vt [j; i; k] = get 0 v [i; j; k]) ->
       u_interp3d_v x y z v xq yq zq fval = u_interp3d_v y x z vt yq xq zq fval.
Proof. exact @Interp3R.interp3d_axis_swap. Qed.

(* 3D: swapping the last two axes (with the previous one: all six relabellings) *)
Theorem C14_interp3d_axis_swap_yz :
  forall (x y z v vt : arr R) (nx ny nz : Z) (xq yq zq fval : R),
       axis x nx ->
       axis y ny ->
       axis z nz ->
       shape v = [nx; ny; nz] ->
       shape vt = [nx; nz; ny] ->
       (forall i j k : Z,
        (0 <= i < nx)%Z -> (0 <= j < ny)%Z -> (0 <= k < nz)%Z -> get 0 vt [i; k; j] = get 0 v [i; j; k]) ->
       u_interp3d_v x y z v xq yq zq fval = u_interp3d_v x z y vt xq zq yq fval.
Proof. exact @Interp3R.interp3d_axis_swap_yz. Qed.

(* API layer, extracted from _base.py on every run (gen/ApiGen.v): the Z axis handed to the interpolator is origin[0] + gridsize[0] * k for k < shape[0], i.e. the hand model's node axis (every numeric instance) *)
Theorem C14_grid_axes_are_origin_plus_index_times_spacing_2d_z :
  forall (T : Type) (N : Num T) (origin gridsize : list T) (shape : list Z),
       ApiGen.axis_2d_zaxis origin gridsize shape =
       axis_nodes (nth 0 origin (nofZ 0)) (nth 0 gridsize (nofZ 0)) (nth 0 shape 0%Z).
Proof. exact @ApiGenEq.gen_axis_2d_zaxis_eq_gen. Qed.

(* X axis: component 1 *)
Theorem C14_grid_axes_2d_x :
  forall (T : Type) (N : Num T) (origin gridsize : list T) (shape : list Z),
       ApiGen.axis_2d_xaxis origin gridsize shape =
       axis_nodes (nth 1 origin (nofZ 0)) (nth 1 gridsize (nofZ 0)) (nth 1 shape 0%Z).
Proof. exact @ApiGenEq.gen_axis_2d_xaxis_eq_gen. Qed.

(* 3D, component 0 *)
Theorem C14_grid_axes_3d_z :
  forall (T : Type) (N : Num T) (origin gridsize : list T) (shape : list Z),
       ApiGen.axis_3d_zaxis origin gridsize shape =
       axis_nodes (nth 0 origin (nofZ 0)) (nth 0 gridsize (nofZ 0)) (nth 0 shape 0%Z).
Proof. exact @ApiGenEq.gen_axis_3d_zaxis_eq_gen. Qed.

(* 3D, component 1 *)
Theorem C14_grid_axes_3d_x :
  forall (T : Type) (N : Num T) (origin gridsize : list T) (shape : list Z),
       ApiGen.axis_3d_xaxis origin gridsize shape =
       axis_nodes (nth 1 origin (nofZ 0)) (nth 1 gridsize (nofZ 0)) (nth 1 shape 0%Z).
Proof. exact @ApiGenEq.gen_axis_3d_xaxis_eq_gen. Qed.

(* 3D, component 2 *)
Theorem C14_grid_axes_3d_y :
  forall (T : Type) (N : Num T) (origin gridsize : list T) (shape : list Z),
       ApiGen.axis_3d_yaxis origin gridsize shape =
       axis_nodes (nth 2 origin (nofZ 0)) (nth 2 gridsize (nofZ 0)) (nth 2 shape 0%Z).
Proof. exact @ApiGenEq.gen_axis_3d_yaxis_eq_gen. Qed.

(* the axis properties read the attributes stored by the constructor and nothing else (no cached copy): extracted shape of BaseGrid.__init__ and of the properties *)
Theorem C14_grid_axes_read_stored_attributes :
  ApiGen.basegrid_init =
       [(String.String (Ascii.Ascii true true true true true false true false)
           (String.String (Ascii.Ascii true true true false false true true false)
              (String.String (Ascii.Ascii false true false false true true true false)
                 (String.String (Ascii.Ascii true false false true false true true false)
                    (String.String (Ascii.Ascii false false true false false true true false) String.EmptyString)))),
         String.String (Ascii.Ascii false true true true false true true false)
           (String.String (Ascii.Ascii false false false false true true true false)
              (String.String (Ascii.Ascii false true true true false true false false)
                 (String.String (Ascii.Ascii true false false false false true true false)
                    (String.String (Ascii.Ascii true true false false true true true false)
                       (String.String (Ascii.Ascii true false false false false true true false)
                          (String.String (Ascii.Ascii false true false false true true true false)
                             (String.String (Ascii.Ascii false true false false true true true false)
                                (String.String (Ascii.Ascii true false false false false true true false)
                                   (String.String (Ascii.Ascii true false false true true true true false)
                                      (String.String (Ascii.Ascii false false false true false true false false)
                                         (String.String (Ascii.Ascii true true true false false true true false)
                                            (String.String (Ascii.Ascii false true false false true true true false)
                                               (String.String (Ascii.Ascii true false false true false true true false)
                                                  (String.String
                                                     (Ascii.Ascii false false true false false true true false)
                                                     (String.String
                                                        (Ascii.Ascii false false true true false true false false)
                                                        (String.String
                                                           (Ascii.Ascii false false false false false true false false)
                                                           (String.String
                                                              (Ascii.Ascii false false true false false true true false)
                                                              (String.String
                                                                 (Ascii.Ascii false false true false true true true
                                                                    false)
                                                                 (String.String
                                                                    (Ascii.Ascii true false false true true true true
                                                                       false)
                                                                    (String.String
                                                                       (Ascii.Ascii false false false false true true
                                                                          true false)
                                                                       (String.String
                                                                          (Ascii.Ascii true false true false false true
                                                                             true false)
                                                                          (String.String
                                                                             (Ascii.Ascii true false true true true
                                                                                true false false)
                                                                             (String.String
                                                                                (Ascii.Ascii false true true true false
                                                                                   true true false)
                                                                                (String.String
                                                                                   (Ascii.Ascii false false false false
                                                                                      true true true false)
                                                                                   (String.String
                                                                                      (Ascii.Ascii false true true true
                                                                                         false true false false)
                                                                                      (String.String
                                                                                         (Ascii.Ascii false true true
                                                                                          false false true true false)
                                                                                         (String.String
                                                                                          (Ascii.Ascii false false true
                                                                                          true false true true false)
                                                                                          (String.String
                                                                                          (Ascii.Ascii true true true
                                                                                          true false true true false)
                                                                                          (String.String
                                                                                          (Ascii.Ascii true false false
                                                                                          false false true true false)
                                                                                          (String.String
                                                                                          (Ascii.Ascii false false true
                                                                                          false true true true false)
                                                                                          (String.String
                                                                                          (Ascii.Ascii false true true
                                                                                          false true true false false)
                                                                                          (String.String
                                                                                          (Ascii.Ascii false false true
                                                                                          false true true false false)
                                                                                          (String.String
                                                                                          (Ascii.Ascii true false false
                                                                                          true false true false false)
                                                                                          String.EmptyString))))))))))))))))))))))))))))))))));
        (String.String (Ascii.Ascii true true true true true false true false)
           (String.String (Ascii.Ascii true true true false false true true false)
              (String.String (Ascii.Ascii false true false false true true true false)
                 (String.String (Ascii.Ascii true false false true false true true false)
                    (String.String (Ascii.Ascii false false true false false true true false)
                       (String.String (Ascii.Ascii true true false false true true true false)
                          (String.String (Ascii.Ascii true false false true false true true false)
                             (String.String (Ascii.Ascii false true false true true true true false)
                                (String.String (Ascii.Ascii true false true false false true true false)
                                   String.EmptyString)))))))),
         String.String (Ascii.Ascii false false true false true true true false)
           (String.String (Ascii.Ascii true false true false true true true false)
              (String.String (Ascii.Ascii false false false false true true true false)
                 (String.String (Ascii.Ascii false false true true false true true false)
                    (String.String (Ascii.Ascii true false true false false true true false)
                       (String.String (Ascii.Ascii false false false true false true false false)
                          (String.String (Ascii.Ascii false false false true false true false false)
                             (String.String (Ascii.Ascii false true true false false true true false)
                                (String.String (Ascii.Ascii false false true true false true true false)
                                   (String.String (Ascii.Ascii true true true true false true true false)
                                      (String.String (Ascii.Ascii true false false false false true true false)
                                         (String.String (Ascii.Ascii false false true false true true true false)
                                            (String.String (Ascii.Ascii false false false true false true false false)
                                               (String.String (Ascii.Ascii false false false true true true true false)
                                                  (String.String
                                                     (Ascii.Ascii true false false true false true false false)
                                                     (String.String
                                                        (Ascii.Ascii false false false false false true false false)
                                                        (String.String
                                                           (Ascii.Ascii false true true false false true true false)
                                                           (String.String
                                                              (Ascii.Ascii true true true true false true true false)
                                                              (String.String
                                                                 (Ascii.Ascii false true false false true true true
                                                                    false)
                                                                 (String.String
                                                                    (Ascii.Ascii false false false false false true
                                                                       false false)
                                                                    (String.String
                                                                       (Ascii.Ascii false false false true true true
                                                                          true false)
                                                                       (String.String
                                                                          (Ascii.Ascii false false false false false
                                                                             true false false)
                                                                          (String.String
                                                                             (Ascii.Ascii true false false true false
                                                                                true true false)
                                                                             (String.String
                                                                                (Ascii.Ascii false true true true false
                                                                                   true true false)
                                                                                (String.String
                                                                                   (Ascii.Ascii false false false false
                                                                                      false true false false)
                                                                                   (String.String
                                                                                      (Ascii.Ascii true true true false
                                                                                         false true true false)
                                                                                      (String.String
                                                                                         (Ascii.Ascii false true false
                                                                                          false true true true false)
                                                                                         (String.String
                                                                                          (Ascii.Ascii true false false
                                                                                          true false true true false)
                                                                                          (String.String
                                                                                          (Ascii.Ascii false false true
                                                                                          false false true true false)
                                                                                          (String.String
                                                                                          (Ascii.Ascii true true false
                                                                                          false true true true false)
                                                                                          (String.String
                                                                                          (Ascii.Ascii true false false
                                                                                          true false true true false)
                                                                                          (String.String
                                                                                          (Ascii.Ascii false true false
                                                                                          true true true true false)
                                                                                          (String.String
                                                                                          (Ascii.Ascii true false true
                                                                                          false false true true false)
                                                                                          (String.String
                                                                                          (Ascii.Ascii true false false
                                                                                          true false true false false)
                                                                                          (String.String
                                                                                          (Ascii.Ascii true false false
                                                                                          true false true false false)
                                                                                          String.EmptyString)))))))))))))))))))))))))))))))))));
        (String.String (Ascii.Ascii true true true true true false true false)
           (String.String (Ascii.Ascii true true true true false true true false)
              (String.String (Ascii.Ascii false true false false true true true false)
                 (String.String (Ascii.Ascii true false false true false true true false)
                    (String.String (Ascii.Ascii true true true false false true true false)
                       (String.String (Ascii.Ascii true false false true false true true false)
                          (String.String (Ascii.Ascii false true true true false true true false) String.EmptyString)))))),
         String.String (Ascii.Ascii false true true true false true true false)
           (String.String (Ascii.Ascii false false false false true true true false)
              (String.String (Ascii.Ascii false true true true false true false false)
                 (String.String (Ascii.Ascii true false false false false true true false)
                    (String.String (Ascii.Ascii true true false false true true true false)
                       (String.String (Ascii.Ascii true false false false false true true false)
                          (String.String (Ascii.Ascii false true false false true true true false)
                             (String.String (Ascii.Ascii false true false false true true true false)
                                (String.String (Ascii.Ascii true false false false false true true false)
                                   (String.String (Ascii.Ascii true false false true true true true false)
                                      (String.String (Ascii.Ascii false false false true false true false false)
                                         (String.String (Ascii.Ascii true true true true false true true false)
                                            (String.String (Ascii.Ascii false true false false true true true false)
                                               (String.String (Ascii.Ascii true false false true false true true false)
                                                  (String.String
                                                     (Ascii.Ascii true true true false false true true false)
                                                     (String.String
                                                        (Ascii.Ascii true false false true false true true false)
                                                        (String.String
                                                           (Ascii.Ascii false true true true false true true false)
                                                           (String.String
                                                              (Ascii.Ascii false false true true false true false false)
                                                              (String.String
                                                                 (Ascii.Ascii false false false false false true false
                                                                    false)
                                                                 (String.String
                                                                    (Ascii.Ascii false false true false false true true
                                                                       false)
                                                                    (String.String
                                                                       (Ascii.Ascii false false true false true true
                                                                          true false)
                                                                       (String.String
                                                                          (Ascii.Ascii true false false true true true
                                                                             true false)
                                                                          (String.String
                                                                             (Ascii.Ascii false false false false true
                                                                                true true false)
                                                                             (String.String
                                                                                (Ascii.Ascii true false true false
                                                                                   false true true false)
                                                                                (String.String
                                                                                   (Ascii.Ascii true false true true
                                                                                      true true false false)
                                                                                   (String.String
                                                                                      (Ascii.Ascii false true true true
                                                                                         false true true false)
                                                                                      (String.String
                                                                                         (Ascii.Ascii false false false
                                                                                          false true true true false)
                                                                                         (String.String
                                                                                          (Ascii.Ascii false true true
                                                                                          true false true false false)
                                                                                          (String.String
                                                                                          (Ascii.Ascii false true true
                                                                                          false false true true false)
                                                                                          (String.String
                                                                                          (Ascii.Ascii false false true
                                                                                          true false true true false)
                                                                                          (String.String
                                                                                          (Ascii.Ascii true true true
                                                                                          true false true true false)
                                                                                          (String.String
                                                                                          (Ascii.Ascii true false false
                                                                                          false false true true false)
                                                                                          (String.String
                                                                                          (Ascii.Ascii false false true
                                                                                          false true true true false)
                                                                                          (String.String
                                                                                          (Ascii.Ascii false true true
                                                                                          false true true false false)
                                                                                          (String.String
                                                                                          (Ascii.Ascii false false true
                                                                                          false true true false false)
                                                                                          (String.String
                                                                                          (Ascii.Ascii true false false
                                                                                          true false true false false)
                                                                                          String.EmptyString))))))))))))))))))))))))))))))))))))] /\
       ApiGen.basegrid_props =
       [(String.String (Ascii.Ascii true true true false false true true false)
           (String.String (Ascii.Ascii false true false false true true true false)
              (String.String (Ascii.Ascii true false false true false true true false)
                 (String.String (Ascii.Ascii false false true false false true true false) String.EmptyString))),
         String.String (Ascii.Ascii true true false false true true true false)
           (String.String (Ascii.Ascii true false true false false true true false)
              (String.String (Ascii.Ascii false false true true false true true false)
                 (String.String (Ascii.Ascii false true true false false true true false)
                    (String.String (Ascii.Ascii false true true true false true false false)
                       (String.String (Ascii.Ascii true true true true true false true false)
                          (String.String (Ascii.Ascii true true true false false true true false)
                             (String.String (Ascii.Ascii false true false false true true true false)
                                (String.String (Ascii.Ascii true false false true false true true false)
                                   (String.String (Ascii.Ascii false false true false false true true false)
                                      String.EmptyString))))))))));
        (String.String (Ascii.Ascii true true true false false true true false)
           (String.String (Ascii.Ascii false true false false true true true false)
              (String.String (Ascii.Ascii true false false true false true true false)
                 (String.String (Ascii.Ascii false false true false false true true false)
                    (String.String (Ascii.Ascii true true false false true true true false)
                       (String.String (Ascii.Ascii true false false true false true true false)
                          (String.String (Ascii.Ascii false true false true true true true false)
                             (String.String (Ascii.Ascii true false true false false true true false)
                                String.EmptyString))))))),
         String.String (Ascii.Ascii true true false false true true true false)
           (String.String (Ascii.Ascii true false true false false true true false)
              (String.String (Ascii.Ascii false false true true false true true false)
                 (String.String (Ascii.Ascii false true true false false true true false)
                    (String.String (Ascii.Ascii false true true true false true false false)
                       (String.String (Ascii.Ascii true true true true true false true false)
                          (String.String (Ascii.Ascii true true true false false true true false)
                             (String.String (Ascii.Ascii false true false false true true true false)
                                (String.String (Ascii.Ascii true false false true false true true false)
                                   (String.String (Ascii.Ascii false false true false false true true false)
                                      (String.String (Ascii.Ascii true true false false true true true false)
                                         (String.String (Ascii.Ascii true false false true false true true false)
                                            (String.String (Ascii.Ascii false true false true true true true false)
                                               (String.String (Ascii.Ascii true false true false false true true false)
                                                  String.EmptyString))))))))))))));
        (String.String (Ascii.Ascii true true true true false true true false)
           (String.String (Ascii.Ascii false true false false true true true false)
              (String.String (Ascii.Ascii true false false true false true true false)
                 (String.String (Ascii.Ascii true true true false false true true false)
                    (String.String (Ascii.Ascii true false false true false true true false)
                       (String.String (Ascii.Ascii false true true true false true true false) String.EmptyString))))),
         String.String (Ascii.Ascii true true false false true true true false)
           (String.String (Ascii.Ascii true false true false false true true false)
              (String.String (Ascii.Ascii false false true true false true true false)
                 (String.String (Ascii.Ascii false true true false false true true false)
                    (String.String (Ascii.Ascii false true true true false true false false)
                       (String.String (Ascii.Ascii true true true true true false true false)
                          (String.String (Ascii.Ascii true true true true false true true false)
                             (String.String (Ascii.Ascii false true false false true true true false)
                                (String.String (Ascii.Ascii true false false true false true true false)
                                   (String.String (Ascii.Ascii true true true false false true true false)
                                      (String.String (Ascii.Ascii true false false true false true true false)
                                         (String.String (Ascii.Ascii false true true true false true true false)
                                            String.EmptyString))))))))))));
        (String.String (Ascii.Ascii true true false false true true true false)
           (String.String (Ascii.Ascii false false false true false true true false)
              (String.String (Ascii.Ascii true false false false false true true false)
                 (String.String (Ascii.Ascii false false false false true true true false)
                    (String.String (Ascii.Ascii true false true false false true true false) String.EmptyString)))),
         String.String (Ascii.Ascii true true false false true true true false)
           (String.String (Ascii.Ascii true false true false false true true false)
              (String.String (Ascii.Ascii false false true true false true true false)
                 (String.String (Ascii.Ascii false true true false false true true false)
                    (String.String (Ascii.Ascii false true true true false true false false)
                       (String.String (Ascii.Ascii true true true true true false true false)
                          (String.String (Ascii.Ascii true true true false false true true false)
                             (String.String (Ascii.Ascii false true false false true true true false)
                                (String.String (Ascii.Ascii true false false true false true true false)
                                   (String.String (Ascii.Ascii false false true false false true true false)
                                      (String.String (Ascii.Ascii false true true true false true false false)
                                         (String.String (Ascii.Ascii true true false false true true true false)
                                            (String.String (Ascii.Ascii false false false true false true true false)
                                               (String.String
                                                  (Ascii.Ascii true false false false false true true false)
                                                  (String.String
                                                     (Ascii.Ascii false false false false true true true false)
                                                     (String.String
                                                        (Ascii.Ascii true false true false false true true false)
                                                        String.EmptyString))))))))))))))))].
Proof. exact @ApiGenEq.gen_basegrid_storage. Qed.

(* which component each axis property uses *)
Theorem C14_grid_axis_component_index :
  ApiGen.axis_index_2d =
       [(String.String (Ascii.Ascii false true false false false false true false)
           (String.String (Ascii.Ascii true false false false false true true false)
              (String.String (Ascii.Ascii true true false false true true true false)
                 (String.String (Ascii.Ascii true false true false false true true false)
                    (String.String (Ascii.Ascii true true true false false false true false)
                       (String.String (Ascii.Ascii false true false false true true true false)
                          (String.String (Ascii.Ascii true false false true false true true false)
                             (String.String (Ascii.Ascii false false true false false true true false)
                                (String.String (Ascii.Ascii false true false false true true false false)
                                   (String.String (Ascii.Ascii false false true false false false true false)
                                      (String.String (Ascii.Ascii false true true true false true false false)
                                         (String.String (Ascii.Ascii false true false true true true true false)
                                            (String.String (Ascii.Ascii true false false false false true true false)
                                               (String.String (Ascii.Ascii false false false true true true true false)
                                                  (String.String
                                                     (Ascii.Ascii true false false true false true true false)
                                                     (String.String
                                                        (Ascii.Ascii true true false false true true true false)
                                                        String.EmptyString))))))))))))))), (
         0%Z, 0%Z, 0%Z));
        (String.String (Ascii.Ascii false true false false false false true false)
           (String.String (Ascii.Ascii true false false false false true true false)
              (String.String (Ascii.Ascii true true false false true true true false)
                 (String.String (Ascii.Ascii true false true false false true true false)
                    (String.String (Ascii.Ascii true true true false false false true false)
                       (String.String (Ascii.Ascii false true false false true true true false)
                          (String.String (Ascii.Ascii true false false true false true true false)
                             (String.String (Ascii.Ascii false false true false false true true false)
                                (String.String (Ascii.Ascii false true false false true true false false)
                                   (String.String (Ascii.Ascii false false true false false false true false)
                                      (String.String (Ascii.Ascii false true true true false true false false)
                                         (String.String (Ascii.Ascii false false false true true true true false)
                                            (String.String (Ascii.Ascii true false false false false true true false)
                                               (String.String (Ascii.Ascii false false false true true true true false)
                                                  (String.String
                                                     (Ascii.Ascii true false false true false true true false)
                                                     (String.String
                                                        (Ascii.Ascii true true false false true true true false)
                                                        String.EmptyString))))))))))))))), (
         1%Z, 1%Z, 1%Z))] /\
       ApiGen.axis_index_3d =
       [(String.String (Ascii.Ascii false true false false false false true false)
           (String.String (Ascii.Ascii true false false false false true true false)
              (String.String (Ascii.Ascii true true false false true true true false)
                 (String.String (Ascii.Ascii true false true false false true true false)
                    (String.String (Ascii.Ascii true true true false false false true false)
                       (String.String (Ascii.Ascii false true false false true true true false)
                          (String.String (Ascii.Ascii true false false true false true true false)
                             (String.String (Ascii.Ascii false false true false false true true false)
                                (String.String (Ascii.Ascii true true false false true true false false)
                                   (String.String (Ascii.Ascii false false true false false false true false)
                                      (String.String (Ascii.Ascii false true true true false true false false)
                                         (String.String (Ascii.Ascii false true false true true true true false)
                                            (String.String (Ascii.Ascii true false false false false true true false)
                                               (String.String (Ascii.Ascii false false false true true true true false)
                                                  (String.String
                                                     (Ascii.Ascii true false false true false true true false)
                                                     (String.String
                                                        (Ascii.Ascii true true false false true true true false)
                                                        String.EmptyString))))))))))))))), (
         0%Z, 0%Z, 0%Z));
        (String.String (Ascii.Ascii false true false false false false true false)
           (String.String (Ascii.Ascii true false false false false true true false)
              (String.String (Ascii.Ascii true true false false true true true false)
                 (String.String (Ascii.Ascii true false true false false true true false)
                    (String.String (Ascii.Ascii true true true false false false true false)
                       (String.String (Ascii.Ascii false true false false true true true false)
                          (String.String (Ascii.Ascii true false false true false true true false)
                             (String.String (Ascii.Ascii false false true false false true true false)
                                (String.String (Ascii.Ascii true true false false true true false false)
                                   (String.String (Ascii.Ascii false false true false false false true false)
                                      (String.String (Ascii.Ascii false true true true false true false false)
                                         (String.String (Ascii.Ascii false false false true true true true false)
                                            (String.String (Ascii.Ascii true false false false false true true false)
                                               (String.String (Ascii.Ascii false false false true true true true false)
                                                  (String.String
                                                     (Ascii.Ascii true false false true false true true false)
                                                     (String.String
                                                        (Ascii.Ascii true true false false true true true false)
                                                        String.EmptyString))))))))))))))), (
         1%Z, 1%Z, 1%Z));
        (String.String (Ascii.Ascii false true false false false false true false)
           (String.String (Ascii.Ascii true false false false false true true false)
              (String.String (Ascii.Ascii true true false false true true true false)
                 (String.String (Ascii.Ascii true false true false false true true false)
                    (String.String (Ascii.Ascii true true true false false false true false)
                       (String.String (Ascii.Ascii false true false false true true true false)
                          (String.String (Ascii.Ascii true false false true false true true false)
                             (String.String (Ascii.Ascii false false true false false true true false)
                                (String.String (Ascii.Ascii true true false false true true false false)
                                   (String.String (Ascii.Ascii false false true false false false true false)
                                      (String.String (Ascii.Ascii false true true true false true false false)
                                         (String.String (Ascii.Ascii true false false true true true true false)
                                            (String.String (Ascii.Ascii true false false false false true true false)
                                               (String.String (Ascii.Ascii false false false true true true true false)
                                                  (String.String
                                                     (Ascii.Ascii true false false true false true true false)
                                                     (String.String
                                                        (Ascii.Ascii true true false false true true true false)
                                                        String.EmptyString))))))))))))))), (
         2%Z, 2%Z, 2%Z))].
Proof. exact @ApiGenEq.gen_axis_index. Qed.

(* BaseGrid2D.__call__ hands (zaxis, xaxis, grid, points as float64, fill_value) to interp2d, parameter by parameter; fill_value defaults to NaN *)
Theorem C14_grid_call_wiring_2d :
  ApiGen.call_2d_binding =
       [(String.String (Ascii.Ascii false false false true true true true false) String.EmptyString,
         String.String (Ascii.Ascii true true false false true true true false)
           (String.String (Ascii.Ascii true false true false false true true false)
              (String.String (Ascii.Ascii false false true true false true true false)
                 (String.String (Ascii.Ascii false true true false false true true false)
                    (String.String (Ascii.Ascii false true true true false true false false)
                       (String.String (Ascii.Ascii false true false true true true true false)
                          (String.String (Ascii.Ascii true false false false false true true false)
                             (String.String (Ascii.Ascii false false false true true true true false)
                                (String.String (Ascii.Ascii true false false true false true true false)
                                   (String.String (Ascii.Ascii true true false false true true true false)
                                      String.EmptyString))))))))));
        (String.String (Ascii.Ascii true false false true true true true false) String.EmptyString,
         String.String (Ascii.Ascii true true false false true true true false)
           (String.String (Ascii.Ascii true false true false false true true false)
              (String.String (Ascii.Ascii false false true true false true true false)
                 (String.String (Ascii.Ascii false true true false false true true false)
                    (String.String (Ascii.Ascii false true true true false true false false)
                       (String.String (Ascii.Ascii false false false true true true true false)
                          (String.String (Ascii.Ascii true false false false false true true false)
                             (String.String (Ascii.Ascii false false false true true true true false)
                                (String.String (Ascii.Ascii true false false true false true true false)
                                   (String.String (Ascii.Ascii true true false false true true true false)
                                      String.EmptyString))))))))));
        (String.String (Ascii.Ascii false true true false true true true false) String.EmptyString,
         String.String (Ascii.Ascii true true false false true true true false)
           (String.String (Ascii.Ascii true false true false false true true false)
              (String.String (Ascii.Ascii false false true true false true true false)
                 (String.String (Ascii.Ascii false true true false false true true false)
                    (String.String (Ascii.Ascii false true true true false true false false)
                       (String.String (Ascii.Ascii true true true true true false true false)
                          (String.String (Ascii.Ascii true true true false false true true false)
                             (String.String (Ascii.Ascii false true false false true true true false)
                                (String.String (Ascii.Ascii true false false true false true true false)
                                   (String.String (Ascii.Ascii false false true false false true true false)
                                      String.EmptyString))))))))));
        (String.String (Ascii.Ascii true false false false true true true false) String.EmptyString,
         String.String (Ascii.Ascii false true true true false true true false)
           (String.String (Ascii.Ascii false false false false true true true false)
              (String.String (Ascii.Ascii false true true true false true false false)
                 (String.String (Ascii.Ascii true false false false false true true false)
                    (String.String (Ascii.Ascii true true false false true true true false)
                       (String.String (Ascii.Ascii true false false false false true true false)
                          (String.String (Ascii.Ascii false true false false true true true false)
                             (String.String (Ascii.Ascii false true false false true true true false)
                                (String.String (Ascii.Ascii true false false false false true true false)
                                   (String.String (Ascii.Ascii true false false true true true true false)
                                      (String.String (Ascii.Ascii false false false true false true false false)
                                         (String.String (Ascii.Ascii false false false false true true true false)
                                            (String.String (Ascii.Ascii true true true true false true true false)
                                               (String.String (Ascii.Ascii true false false true false true true false)
                                                  (String.String
                                                     (Ascii.Ascii false true true true false true true false)
                                                     (String.String
                                                        (Ascii.Ascii false false true false true true true false)
                                                        (String.String
                                                           (Ascii.Ascii true true false false true true true false)
                                                           (String.String
                                                              (Ascii.Ascii false false true true false true false false)
                                                              (String.String
                                                                 (Ascii.Ascii false false false false false true false
                                                                    false)
                                                                 (String.String
                                                                    (Ascii.Ascii false false true false false true true
                                                                       false)
                                                                    (String.String
                                                                       (Ascii.Ascii false false true false true true
                                                                          true false)
                                                                       (String.String
                                                                          (Ascii.Ascii true false false true true true
                                                                             true false)
                                                                          (String.String
                                                                             (Ascii.Ascii false false false false true
                                                                                true true false)
                                                                             (String.String
                                                                                (Ascii.Ascii true false true false
                                                                                   false true true false)
                                                                                (String.String
                                                                                   (Ascii.Ascii true false true true
                                                                                      true true false false)
                                                                                   (String.String
                                                                                      (Ascii.Ascii false true true true
                                                                                         false true true false)
                                                                                      (String.String
                                                                                         (Ascii.Ascii false false false
                                                                                          false true true true false)
                                                                                         (String.String
                                                                                          (Ascii.Ascii false true true
                                                                                          true false true false false)
                                                                                          (String.String
                                                                                          (Ascii.Ascii false true true
                                                                                          false false true true false)
                                                                                          (String.String
                                                                                          (Ascii.Ascii false false true
                                                                                          true false true true false)
                                                                                          (String.String
                                                                                          (Ascii.Ascii true true true
                                                                                          true false true true false)
                                                                                          (String.String
                                                                                          (Ascii.Ascii true false false
                                                                                          false false true true false)
                                                                                          (String.String
                                                                                          (Ascii.Ascii false false true
                                                                                          false true true true false)
                                                                                          (String.String
                                                                                          (Ascii.Ascii false true true
                                                                                          false true true false false)
                                                                                          (String.String
                                                                                          (Ascii.Ascii false false true
                                                                                          false true true false false)
                                                                                          (String.String
                                                                                          (Ascii.Ascii true false false
                                                                                          true false true false false)
                                                                                          String.EmptyString))))))))))))))))))))))))))))))))))));
        (String.String (Ascii.Ascii false true true false false true true false)
           (String.String (Ascii.Ascii false true true false true true true false)
              (String.String (Ascii.Ascii true false false false false true true false)
                 (String.String (Ascii.Ascii false false true true false true true false) String.EmptyString))),
         String.String (Ascii.Ascii false true true false false true true false)
           (String.String (Ascii.Ascii true false false true false true true false)
              (String.String (Ascii.Ascii false false true true false true true false)
                 (String.String (Ascii.Ascii false false true true false true true false)
                    (String.String (Ascii.Ascii true true true true true false true false)
                       (String.String (Ascii.Ascii false true true false true true true false)
                          (String.String (Ascii.Ascii true false false false false true true false)
                             (String.String (Ascii.Ascii false false true true false true true false)
                                (String.String (Ascii.Ascii true false true false true true true false)
                                   (String.String (Ascii.Ascii true false true false false true true false)
                                      String.EmptyString))))))))))] /\
       fst ApiGen.call_2d_call =
       String.String (Ascii.Ascii true false false true false true true false)
         (String.String (Ascii.Ascii false true true true false true true false)
            (String.String (Ascii.Ascii false false true false true true true false)
               (String.String (Ascii.Ascii true false true false false true true false)
                  (String.String (Ascii.Ascii false true false false true true true false)
                     (String.String (Ascii.Ascii false false false false true true true false)
                        (String.String (Ascii.Ascii false true false false true true false false)
                           (String.String (Ascii.Ascii false false true false false true true false) String.EmptyString))))))) /\
       map fst ApiGen.call_2d_binding = ApiGen.interp2d_params /\
       map snd ApiGen.call_2d_binding = snd ApiGen.call_2d_call /\
       ApiGen.call_2d_params =
       [String.String (Ascii.Ascii false false false false true true true false)
          (String.String (Ascii.Ascii true true true true false true true false)
             (String.String (Ascii.Ascii true false false true false true true false)
                (String.String (Ascii.Ascii false true true true false true true false)
                   (String.String (Ascii.Ascii false false true false true true true false)
                      (String.String (Ascii.Ascii true true false false true true true false) String.EmptyString)))));
        String.String (Ascii.Ascii false true true false false true true false)
          (String.String (Ascii.Ascii true false false true false true true false)
             (String.String (Ascii.Ascii false false true true false true true false)
                (String.String (Ascii.Ascii false false true true false true true false)
                   (String.String (Ascii.Ascii true true true true true false true false)
                      (String.String (Ascii.Ascii false true true false true true true false)
                         (String.String (Ascii.Ascii true false false false false true true false)
                            (String.String (Ascii.Ascii false false true true false true true false)
                               (String.String (Ascii.Ascii true false true false true true true false)
                                  (String.String (Ascii.Ascii true false true false false true true false)
                                     (String.String (Ascii.Ascii true false true true true true false false)
                                        (String.String (Ascii.Ascii false true true true false true true false)
                                           (String.String (Ascii.Ascii false false false false true true true false)
                                              (String.String (Ascii.Ascii false true true true false true false false)
                                                 (String.String
                                                    (Ascii.Ascii false true true true false true true false)
                                                    (String.String
                                                       (Ascii.Ascii true false false false false true true false)
                                                       (String.String
                                                          (Ascii.Ascii false true true true false true true false)
                                                          String.EmptyString))))))))))))))))] /\
       ApiGen.interp2d_defaults =
       [(String.String (Ascii.Ascii false true true false false true true false)
           (String.String (Ascii.Ascii false true true false true true true false)
              (String.String (Ascii.Ascii true false false false false true true false)
                 (String.String (Ascii.Ascii false false true true false true true false) String.EmptyString))),
         String.String (Ascii.Ascii false true true true false true true false)
           (String.String (Ascii.Ascii false false false false true true true false)
              (String.String (Ascii.Ascii false true true true false true false false)
                 (String.String (Ascii.Ascii false true true true false true true false)
                    (String.String (Ascii.Ascii true false false false false true true false)
                       (String.String (Ascii.Ascii false true true true false true true false) String.EmptyString))))))].
Proof. exact @ApiGenEq.gen_call_2d_wiring. Qed.

(* 3D *)
Theorem C14_grid_call_wiring_3d :
  ApiGen.call_3d_binding =
       [(String.String (Ascii.Ascii false false false true true true true false) String.EmptyString,
         String.String (Ascii.Ascii true true false false true true true false)
           (String.String (Ascii.Ascii true false true false false true true false)
              (String.String (Ascii.Ascii false false true true false true true false)
                 (String.String (Ascii.Ascii false true true false false true true false)
                    (String.String (Ascii.Ascii false true true true false true false false)
                       (String.String (Ascii.Ascii false true false true true true true false)
                          (String.String (Ascii.Ascii true false false false false true true false)
                             (String.String (Ascii.Ascii false false false true true true true false)
                                (String.String (Ascii.Ascii true false false true false true true false)
                                   (String.String (Ascii.Ascii true true false false true true true false)
                                      String.EmptyString))))))))));
        (String.String (Ascii.Ascii true false false true true true true false) String.EmptyString,
         String.String (Ascii.Ascii true true false false true true true false)
           (String.String (Ascii.Ascii true false true false false true true false)
              (String.String (Ascii.Ascii false false true true false true true false)
                 (String.String (Ascii.Ascii false true true false false true true false)
                    (String.String (Ascii.Ascii false true true true false true false false)
                       (String.String (Ascii.Ascii false false false true true true true false)
                          (String.String (Ascii.Ascii true false false false false true true false)
                             (String.String (Ascii.Ascii false false false true true true true false)
                                (String.String (Ascii.Ascii true false false true false true true false)
                                   (String.String (Ascii.Ascii true true false false true true true false)
                                      String.EmptyString))))))))));
        (String.String (Ascii.Ascii false true false true true true true false) String.EmptyString,
         String.String (Ascii.Ascii true true false false true true true false)
           (String.String (Ascii.Ascii true false true false false true true false)
              (String.String (Ascii.Ascii false false true true false true true false)
                 (String.String (Ascii.Ascii false true true false false true true false)
                    (String.String (Ascii.Ascii false true true true false true false false)
                       (String.String (Ascii.Ascii true false false true true true true false)
                          (String.String (Ascii.Ascii true false false false false true true false)
                             (String.String (Ascii.Ascii false false false true true true true false)
                                (String.String (Ascii.Ascii true false false true false true true false)
                                   (String.String (Ascii.Ascii true true false false true true true false)
                                      String.EmptyString))))))))));
        (String.String (Ascii.Ascii false true true false true true true false) String.EmptyString,
         String.String (Ascii.Ascii true true false false true true true false)
           (String.String (Ascii.Ascii true false true false false true true false)
              (String.String (Ascii.Ascii false false true true false true true false)
                 (String.String (Ascii.Ascii false true true false false true true false)
                    (String.String (Ascii.Ascii false true true true false true false false)
                       (String.String (Ascii.Ascii true true true true true false true false)
                          (String.String (Ascii.Ascii true true true false false true true false)
                             (String.String (Ascii.Ascii false true false false true true true false)
                                (String.String (Ascii.Ascii true false false true false true true false)
                                   (String.String (Ascii.Ascii false false true false false true true false)
                                      String.EmptyString))))))))));
        (String.String (Ascii.Ascii true false false false true true true false) String.EmptyString,
         String.String (Ascii.Ascii false true true true false true true false)
           (String.String (Ascii.Ascii false false false false true true true false)
              (String.String (Ascii.Ascii false true true true false true false false)
                 (String.String (Ascii.Ascii true false false false false true true false)
                    (String.String (Ascii.Ascii true true false false true true true false)
                       (String.String (Ascii.Ascii true false false false false true true false)
                          (String.String (Ascii.Ascii false true false false true true true false)
                             (String.String (Ascii.Ascii false true false false true true true false)
                                (String.String (Ascii.Ascii true false false false false true true false)
                                   (String.String (Ascii.Ascii true false false true true true true false)
                                      (String.String (Ascii.Ascii false false false true false true false false)
                                         (String.String (Ascii.Ascii false false false false true true true false)
                                            (String.String (Ascii.Ascii true true true true false true true false)
                                               (String.String (Ascii.Ascii true false false true false true true false)
                                                  (String.String
                                                     (Ascii.Ascii false true true true false true true false)
                                                     (String.String
                                                        (Ascii.Ascii false false true false true true true false)
                                                        (String.String
                                                           (Ascii.Ascii true true false false true true true false)
                                                           (String.String
                                                              (Ascii.Ascii false false true true false true false false)
                                                              (String.String
                                                                 (Ascii.Ascii false false false false false true false
                                                                    false)
                                                                 (String.String
                                                                    (Ascii.Ascii false false true false false true true
                                                                       false)
                                                                    (String.String
                                                                       (Ascii.Ascii false false true false true true
                                                                          true false)
                                                                       (String.String
                                                                          (Ascii.Ascii true false false true true true
                                                                             true false)
                                                                          (String.String
                                                                             (Ascii.Ascii false false false false true
                                                                                true true false)
                                                                             (String.String
                                                                                (Ascii.Ascii true false true false
                                                                                   false true true false)
                                                                                (String.String
                                                                                   (Ascii.Ascii true false true true
                                                                                      true true false false)
                                                                                   (String.String
                                                                                      (Ascii.Ascii false true true true
                                                                                         false true true false)
                                                                                      (String.String
                                                                                         (Ascii.Ascii false false false
                                                                                          false true true true false)
                                                                                         (String.String
                                                                                          (Ascii.Ascii false true true
                                                                                          true false true false false)
                                                                                          (String.String
                                                                                          (Ascii.Ascii false true true
                                                                                          false false true true false)
                                                                                          (String.String
                                                                                          (Ascii.Ascii false false true
                                                                                          true false true true false)
                                                                                          (String.String
                                                                                          (Ascii.Ascii true true true
                                                                                          true false true true false)
                                                                                          (String.String
                                                                                          (Ascii.Ascii true false false
                                                                                          false false true true false)
                                                                                          (String.String
                                                                                          (Ascii.Ascii false false true
                                                                                          false true true true false)
                                                                                          (String.String
                                                                                          (Ascii.Ascii false true true
                                                                                          false true true false false)
                                                                                          (String.String
                                                                                          (Ascii.Ascii false false true
                                                                                          false true true false false)
                                                                                          (String.String
                                                                                          (Ascii.Ascii true false false
                                                                                          true false true false false)
                                                                                          String.EmptyString))))))))))))))))))))))))))))))))))));
        (String.String (Ascii.Ascii false true true false false true true false)
           (String.String (Ascii.Ascii false true true false true true true false)
              (String.String (Ascii.Ascii true false false false false true true false)
                 (String.String (Ascii.Ascii false false true true false true true false) String.EmptyString))),
         String.String (Ascii.Ascii false true true false false true true false)
           (String.String (Ascii.Ascii true false false true false true true false)
              (String.String (Ascii.Ascii false false true true false true true false)
                 (String.String (Ascii.Ascii false false true true false true true false)
                    (String.String (Ascii.Ascii true true true true true false true false)
                       (String.String (Ascii.Ascii false true true false true true true false)
                          (String.String (Ascii.Ascii true false false false false true true false)
                             (String.String (Ascii.Ascii false false true true false true true false)
                                (String.String (Ascii.Ascii true false true false true true true false)
                                   (String.String (Ascii.Ascii true false true false false true true false)
                                      String.EmptyString))))))))))] /\
       fst ApiGen.call_3d_call =
       String.String (Ascii.Ascii true false false true false true true false)
         (String.String (Ascii.Ascii false true true true false true true false)
            (String.String (Ascii.Ascii false false true false true true true false)
               (String.String (Ascii.Ascii true false true false false true true false)
                  (String.String (Ascii.Ascii false true false false true true true false)
                     (String.String (Ascii.Ascii false false false false true true true false)
                        (String.String (Ascii.Ascii true true false false true true false false)
                           (String.String (Ascii.Ascii false false true false false true true false) String.EmptyString))))))) /\
       map fst ApiGen.call_3d_binding = ApiGen.interp3d_params /\
       map snd ApiGen.call_3d_binding = snd ApiGen.call_3d_call /\
       ApiGen.call_3d_params =
       [String.String (Ascii.Ascii false false false false true true true false)
          (String.String (Ascii.Ascii true true true true false true true false)
             (String.String (Ascii.Ascii true false false true false true true false)
                (String.String (Ascii.Ascii false true true true false true true false)
                   (String.String (Ascii.Ascii false false true false true true true false)
                      (String.String (Ascii.Ascii true true false false true true true false) String.EmptyString)))));
        String.String (Ascii.Ascii false true true false false true true false)
          (String.String (Ascii.Ascii true false false true false true true false)
             (String.String (Ascii.Ascii false false true true false true true false)
                (String.String (Ascii.Ascii false false true true false true true false)
                   (String.String (Ascii.Ascii true true true true true false true false)
                      (String.String (Ascii.Ascii false true true false true true true false)
                         (String.String (Ascii.Ascii true false false false false true true false)
                            (String.String (Ascii.Ascii false false true true false true true false)
                               (String.String (Ascii.Ascii true false true false true true true false)
                                  (String.String (Ascii.Ascii true false true false false true true false)
                                     (String.String (Ascii.Ascii true false true true true true false false)
                                        (String.String (Ascii.Ascii false true true true false true true false)
                                           (String.String (Ascii.Ascii false false false false true true true false)
                                              (String.String (Ascii.Ascii false true true true false true false false)
                                                 (String.String
                                                    (Ascii.Ascii false true true true false true true false)
                                                    (String.String
                                                       (Ascii.Ascii true false false false false true true false)
                                                       (String.String
                                                          (Ascii.Ascii false true true true false true true false)
                                                          String.EmptyString))))))))))))))))] /\
       ApiGen.interp3d_defaults =
       [(String.String (Ascii.Ascii false true true false false true true false)
           (String.String (Ascii.Ascii false true true false true true true false)
              (String.String (Ascii.Ascii true false false false false true true false)
                 (String.String (Ascii.Ascii false false true true false true true false) String.EmptyString))),
         String.String (Ascii.Ascii false true true true false true true false)
           (String.String (Ascii.Ascii false false false false true true true false)
              (String.String (Ascii.Ascii false true true true false true false false)
                 (String.String (Ascii.Ascii false true true true false true true false)
                    (String.String (Ascii.Ascii true false false false false true true false)
                       (String.String (Ascii.Ascii false true true true false true true false) String.EmptyString))))))].
Proof. exact @ApiGenEq.gen_call_3d_wiring. Qed.

(* non-vacuity: a concrete ascending axis with two nodes *)
Example C14_axis_inhabited : SSR.axis (mkarr [2%Z] [0; 1]) 2.
Proof. repeat split; try reflexivity; try (compute; discriminate). intros i j [[Hi Hij] Hj]. assert (i = 0%Z) by lia. assert (j = 1%Z) by lia. subst. unfold get; simpl. lra. Qed.

Print Assumptions C14_interp2d_outside.
Print Assumptions C14_interp2d_is_bilinear.
Print Assumptions C14_interp2d_node.
Print Assumptions C14_interp2d_convex.
Print Assumptions C14_interp2d_multilinear_exact.
Print Assumptions C14_interp2d_continuous_faces.
Print Assumptions C14_interp2d_axis_swap.
Print Assumptions C14_interp3d_outside.
Print Assumptions C14_interp3d_is_trilinear.
Print Assumptions C14_interp3d_node.
Print Assumptions C14_interp3d_convex.
Print Assumptions C14_interp3d_multilinear_exact.
Print Assumptions C14_interp3d_continuous_faces.
Print Assumptions C14_interp3d_axis_swap_xy.
Print Assumptions C14_interp3d_axis_swap_yz.
Print Assumptions C14_grid_axes_are_origin_plus_index_times_spacing_2d_z.
Print Assumptions C14_grid_axes_2d_x.
Print Assumptions C14_grid_axes_3d_z.
Print Assumptions C14_grid_axes_3d_x.
Print Assumptions C14_grid_axes_3d_y.
Print Assumptions C14_grid_axes_read_stored_attributes.
Print Assumptions C14_grid_axis_component_index.
Print Assumptions C14_grid_call_wiring_2d.
Print Assumptions C14_grid_call_wiring_3d.
