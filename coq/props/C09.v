(* C09  Traveltime interpolation honours nodes, source and physical bounds (model: gen/Vinterp2d.v, gen/Vinterp3d.v)
   Only statements and `exact`: the proofs are in proofs/.  Written by tools/mkprops.py from Coq's own printing of the
   lemma statements; every statement is in full below so that it cannot be weakened without this file changing. *)
From Coq Require Import ZArith List Bool Reals Lia Lra.
From FT.lib Require Import Num Arr ArrLemmas Lower NumArr.
From FT.gen Require Import Common Interp2d Interp3d Vinterp2d Vinterp3d FteikCommon Fteik2d Fteik3d Ray2d Ray3d.
From FT.model Require Import Api.
From FT.proofs Require Import SSR InterpR Interp3R VinterpR Vinterp3R.
From FT.proofs Require ApiGenEq.
Import ListNotations.
Open Scope R_scope.

(* every numeric instance (binary64 with NaN): outside the hull or for a NaN coordinate the fill value is returned; the hull boundary counts as inside (the test uses <=) *)
Theorem C09_vinterp2d_outside :
  forall (T : Type) (H : Num T) (x y v : arr T) (xq yq xsrc ysrc vzero fval : T),
       nleb (get (nofZ 0) x [0%Z]) xq && nleb xq (get (nofZ 0) x [(dim x 0 - 1)%Z]) &&
       (nleb (get (nofZ 0) y [0%Z]) yq && nleb yq (get (nofZ 0) y [(dim y 0 - 1)%Z])) = false ->
       u_vinterp2d_v x y v xq yq xsrc ysrc vzero fval = fval.
Proof. exact @VinterpR.vinterp2d_outside. Qed.

(* every numeric instance: a query in the source's cell gets vzero * distance *)
Theorem C09_vinterp2d_source_cell_any_instance :
  forall (T : Type) (H : Num T) (x y v : arr T) (xq yq xsrc ysrc vzero fval : T),
       nleb (get (nofZ 0) x [0%Z]) xq && nleb xq (get (nofZ 0) x [(dim x 0 - 1)%Z]) &&
       (nleb (get (nofZ 0) y [0%Z]) yq && nleb yq (get (nofZ 0) y [(dim y 0 - 1)%Z])) = true ->
       searchsorted_right x xsrc = searchsorted_right x xq ->
       searchsorted_right y ysrc = searchsorted_right y yq ->
       u_vinterp2d_v x y v xq yq xsrc ysrc vzero fval = nmul vzero (dist2d xsrc ysrc xq yq).
Proof. exact @VinterpR.vinterp2d_source_cell_gen. Qed.

(* 0 at the source *)
Theorem C09_vinterp2d_source :
  forall (x y v : arr R) (nx ny : Z),
       axis x nx ->
       axis y ny ->
       forall xsrc ysrc vzero fval : R,
       get 0 x [0%Z] <= xsrc <= get 0 x [(nx - 1)%Z] ->
       get 0 y [0%Z] <= ysrc <= get 0 y [(ny - 1)%Z] -> u_vinterp2d_v x y v xsrc ysrc xsrc ysrc vzero fval = 0.
Proof. exact @VinterpR.vinterp2d_source. Qed.

(* source-cell slowness x distance inside the source's cell *)
Theorem C09_vinterp2d_source_cell :
  forall (x y v : arr R) (nx ny : Z),
       axis x nx ->
       axis y ny ->
       forall xq yq xsrc ysrc vzero fval : R,
       get 0 x [0%Z] <= xq <= get 0 x [(nx - 1)%Z] ->
       get 0 y [0%Z] <= yq <= get 0 y [(ny - 1)%Z] ->
       searchsorted_right x xsrc = searchsorted_right x xq /\ searchsorted_right y ysrc = searchsorted_right y yq ->
       u_vinterp2d_v x y v xq yq xsrc ysrc vzero fval = vzero * sqrt ((xsrc - xq) ^ 2 + (ysrc - yq) ^ 2).
Proof. exact @VinterpR.vinterp2d_source_cell. Qed.

(* a cell touching the source (a corner with time 0) also gets vzero * distance *)
Theorem C09_vinterp2d_zero_corner :
  forall (x y v : arr R) (nx ny : Z),
       axis x nx ->
       axis y ny ->
       shape v = [nx; ny] ->
       forall xq yq xsrc ysrc vzero fval : R,
       get 0 x [0%Z] <= xq <= get 0 x [(nx - 1)%Z] ->
       get 0 y [0%Z] <= yq <= get 0 y [(ny - 1)%Z] ->
       ~ (searchsorted_right x xsrc = searchsorted_right x xq /\ searchsorted_right y ysrc = searchsorted_right y yq) ->
       (exists k l : Z, used x nx xq k /\ used y ny yq l /\ get 0 v [k; l] = 0) ->
       u_vinterp2d_v x y v xq yq xsrc ysrc vzero fval = vzero * sqrt ((xsrc - xq) ^ 2 + (ysrc - yq) ^ 2).
Proof. exact @VinterpR.vinterp2d_zero_corner. Qed.

(* elsewhere: distance / (bilinear interpolant of the corners' apparent velocities distance/time) on the enclosing cell *)
Theorem C09_vinterp2d_spec :
  forall (x y v : arr R) (nx ny : Z),
       axis x nx ->
       axis y ny ->
       shape v = [nx; ny] ->
       forall xq yq xsrc ysrc vzero fval : R,
       get 0 x [0%Z] <= xq <= get 0 x [(nx - 1)%Z] ->
       get 0 y [0%Z] <= yq <= get 0 y [(ny - 1)%Z] ->
       ~ (searchsorted_right x xsrc = searchsorted_right x xq /\ searchsorted_right y ysrc = searchsorted_right y yq) ->
       (forall k l : Z, used x nx xq k -> used y ny yq l -> get 0 v [k; l] <> 0) ->
       u_vinterp2d_v x y v xq yq xsrc ysrc vzero fval = vbilin x y v xsrc ysrc (cell x nx xq) (cell y ny yq) xq yq.
Proof. exact @VinterpR.vinterp2d_spec. Qed.

(* on a far face the same value is expressed with the corners of that face only *)
Theorem C09_vinterp2d_spec_far_faces :
  forall (x y v : arr R) (nx ny : Z),
       axis x nx ->
       axis y ny ->
       shape v = [nx; ny] ->
       forall xq yq xsrc ysrc vzero fval : R,
       get 0 x [0%Z] <= xq <= get 0 x [(nx - 1)%Z] ->
       get 0 y [0%Z] <= yq <= get 0 y [(ny - 1)%Z] ->
       ~ (searchsorted_right x xsrc = searchsorted_right x xq /\ searchsorted_right y ysrc = searchsorted_right y yq) ->
       (forall k l : Z, used x nx xq k -> used y ny yq l -> get 0 v [k; l] <> 0) ->
       let i := cell x nx xq in
       let j := cell y ny yq in
       let a := appvel2 x y v xsrc ysrc in
       (xq = get 0 x [(nx - 1)%Z] ->
        (i + 1)%Z = (nx - 1)%Z /\
        u_vinterp2d_v x y v xq yq xsrc ysrc vzero fval =
        dist2d xsrc ysrc xq yq /
        lin_core (get 0 y [j]) (get 0 y [(j + 1)%Z]) (a (i + 1)%Z j) (a (i + 1)%Z (j + 1)%Z) yq) /\
       (yq = get 0 y [(ny - 1)%Z] ->
        (j + 1)%Z = (ny - 1)%Z /\
        u_vinterp2d_v x y v xq yq xsrc ysrc vzero fval =
        dist2d xsrc ysrc xq yq /
        lin_core (get 0 x [i]) (get 0 x [(i + 1)%Z]) (a i (j + 1)%Z) (a (i + 1)%Z (j + 1)%Z) xq) /\
       (xq = get 0 x [(nx - 1)%Z] ->
        yq = get 0 y [(ny - 1)%Z] ->
        u_vinterp2d_v x y v xq yq xsrc ysrc vzero fval = dist2d xsrc ysrc xq yq / a (nx - 1)%Z (ny - 1)%Z).
Proof. exact @VinterpR.vinterp2d_spec_far_faces. Qed.

(* the stored node value at every node that does not touch the source *)
Theorem C09_vinterp2d_node :
  forall (x y v : arr R) (nx ny : Z),
       axis x nx ->
       axis y ny ->
       shape v = [nx; ny] ->
       forall (k l : Z) (xsrc ysrc vzero fval : R),
       (0 <= k < nx)%Z ->
       (0 <= l < ny)%Z ->
       let xq := get 0 x [k] in
       let yq := get 0 y [l] in
       ~ (searchsorted_right x xsrc = searchsorted_right x xq /\ searchsorted_right y ysrc = searchsorted_right y yq) ->
       (forall k' l' : Z, used x nx xq k' -> used y ny yq l' -> get 0 v [k'; l'] <> 0) ->
       u_vinterp2d_v x y v xq yq xsrc ysrc vzero fval = get 0 v [k; l].
Proof. exact @VinterpR.vinterp2d_node. Qed.

(* between distance/max and distance/min of the corners' apparent velocities *)
Theorem C09_vinterp2d_bounds :
  forall (x y v : arr R) (nx ny : Z),
       axis x nx ->
       axis y ny ->
       shape v = [nx; ny] ->
       forall xq yq xsrc ysrc vzero fval : R,
       get 0 x [0%Z] <= xq <= get 0 x [(nx - 1)%Z] ->
       get 0 y [0%Z] <= yq <= get 0 y [(ny - 1)%Z] ->
       forall lo hi : R,
       ~ (searchsorted_right x xsrc = searchsorted_right x xq /\ searchsorted_right y ysrc = searchsorted_right y yq) ->
       0 < lo ->
       (forall k l : Z,
        used x nx xq k -> used y ny yq l -> get 0 v [k; l] <> 0 /\ lo <= appvel2 x y v xsrc ysrc k l <= hi) ->
       sqrt ((xsrc - xq) ^ 2 + (ysrc - yq) ^ 2) / hi <= u_vinterp2d_v x y v xq yq xsrc ysrc vzero fval <=
       sqrt ((xsrc - xq) ^ 2 + (ysrc - yq) ^ 2) / lo.
Proof. exact @VinterpR.vinterp2d_bounds. Qed.

(* exact on exact homogeneous node times *)
Theorem C09_vinterp2d_homogeneous_exact :
  forall (x y v : arr R) (nx ny : Z),
       axis x nx ->
       axis y ny ->
       shape v = [nx; ny] ->
       forall xq yq xsrc ysrc vzero fval : R,
       get 0 x [0%Z] <= xq <= get 0 x [(nx - 1)%Z] ->
       get 0 y [0%Z] <= yq <= get 0 y [(ny - 1)%Z] ->
       forall s : R,
       ~ (searchsorted_right x xsrc = searchsorted_right x xq /\ searchsorted_right y ysrc = searchsorted_right y yq) ->
       0 < s ->
       (forall k l : Z,
        used x nx xq k ->
        used y ny yq l ->
        0 < dist2d xsrc ysrc (get 0 x [k]) (get 0 y [l]) /\
        get 0 v [k; l] = s * dist2d xsrc ysrc (get 0 x [k]) (get 0 y [l])) ->
       u_vinterp2d_v x y v xq yq xsrc ysrc vzero fval = s * sqrt ((xsrc - xq) ^ 2 + (ysrc - yq) ^ 2).
Proof. exact @VinterpR.vinterp2d_homogeneous_exact. Qed.

(* 3D: fill value, every numeric instance *)
Theorem C09_vinterp3d_outside :
  forall (T : Type) (H : Num T) (x y z v : arr T) (xq yq zq xsrc ysrc zsrc vzero fval : T),
       nleb (get (nofZ 0) x [0%Z]) xq && nleb xq (get (nofZ 0) x [(dim x 0 - 1)%Z]) &&
       (nleb (get (nofZ 0) y [0%Z]) yq && nleb yq (get (nofZ 0) y [(dim y 0 - 1)%Z])) &&
       (nleb (get (nofZ 0) z [0%Z]) zq && nleb zq (get (nofZ 0) z [(dim z 0 - 1)%Z])) = false ->
       u_vinterp3d_v x y z v xq yq zq xsrc ysrc zsrc vzero fval = fval.
Proof. exact @Vinterp3R.vinterp3d_outside. Qed.

(* 3D: 0 at the source *)
Theorem C09_vinterp3d_source :
  forall (x y z v : arr R) (nx ny nz : Z),
       axis x nx ->
       axis y ny ->
       axis z nz ->
       forall xsrc ysrc zsrc vzero fval : R,
       get 0 x [0%Z] <= xsrc <= get 0 x [(nx - 1)%Z] ->
       get 0 y [0%Z] <= ysrc <= get 0 y [(ny - 1)%Z] ->
       get 0 z [0%Z] <= zsrc <= get 0 z [(nz - 1)%Z] ->
       u_vinterp3d_v x y z v xsrc ysrc zsrc xsrc ysrc zsrc vzero fval = 0.
Proof. exact @Vinterp3R.vinterp3d_source. Qed.

(* 3D: vzero * distance in the source cell *)
Theorem C09_vinterp3d_source_cell :
  forall (x y z v : arr R) (nx ny nz : Z),
       axis x nx ->
       axis y ny ->
       axis z nz ->
       forall xq yq zq xsrc ysrc zsrc vzero fval : R,
       get 0 x [0%Z] <= xq <= get 0 x [(nx - 1)%Z] ->
       get 0 y [0%Z] <= yq <= get 0 y [(ny - 1)%Z] ->
       get 0 z [0%Z] <= zq <= get 0 z [(nz - 1)%Z] ->
       searchsorted_right x xsrc = searchsorted_right x xq /\
       searchsorted_right y ysrc = searchsorted_right y yq /\ searchsorted_right z zsrc = searchsorted_right z zq ->
       u_vinterp3d_v x y z v xq yq zq xsrc ysrc zsrc vzero fval =
       vzero * sqrt ((xsrc - xq) ^ 2 + (ysrc - yq) ^ 2 + (zsrc - zq) ^ 2).
Proof. exact @Vinterp3R.vinterp3d_source_cell. Qed.

(* 3D: also in a cell with a zero-time corner *)
Theorem C09_vinterp3d_zero_corner :
  forall (x y z v : arr R) (nx ny nz : Z),
       axis x nx ->
       axis y ny ->
       axis z nz ->
       shape v = [nx; ny; nz] ->
       forall xq yq zq xsrc ysrc zsrc vzero fval : R,
       get 0 x [0%Z] <= xq <= get 0 x [(nx - 1)%Z] ->
       get 0 y [0%Z] <= yq <= get 0 y [(ny - 1)%Z] ->
       get 0 z [0%Z] <= zq <= get 0 z [(nz - 1)%Z] ->
       ~
       (searchsorted_right x xsrc = searchsorted_right x xq /\
        searchsorted_right y ysrc = searchsorted_right y yq /\ searchsorted_right z zsrc = searchsorted_right z zq) ->
       (exists k l m : Z, used x nx xq k /\ used y ny yq l /\ used z nz zq m /\ get 0 v [k; l; m] = 0) ->
       u_vinterp3d_v x y z v xq yq zq xsrc ysrc zsrc vzero fval =
       vzero * sqrt ((xsrc - xq) ^ 2 + (ysrc - yq) ^ 2 + (zsrc - zq) ^ 2).
Proof. exact @Vinterp3R.vinterp3d_zero_corner. Qed.

(* 3D: distance / trilinear interpolant of apparent velocities *)
Theorem C09_vinterp3d_spec :
  forall (x y z v : arr R) (nx ny nz : Z),
       axis x nx ->
       axis y ny ->
       axis z nz ->
       shape v = [nx; ny; nz] ->
       forall xq yq zq xsrc ysrc zsrc vzero fval : R,
       get 0 x [0%Z] <= xq <= get 0 x [(nx - 1)%Z] ->
       get 0 y [0%Z] <= yq <= get 0 y [(ny - 1)%Z] ->
       get 0 z [0%Z] <= zq <= get 0 z [(nz - 1)%Z] ->
       ~
       (searchsorted_right x xsrc = searchsorted_right x xq /\
        searchsorted_right y ysrc = searchsorted_right y yq /\ searchsorted_right z zsrc = searchsorted_right z zq) ->
       (forall k l m : Z, used x nx xq k -> used y ny yq l -> used z nz zq m -> get 0 v [k; l; m] <> 0) ->
       u_vinterp3d_v x y z v xq yq zq xsrc ysrc zsrc vzero fval =
       vtrilin x y z v xsrc ysrc zsrc (cell x nx xq) (cell y ny yq) (cell z nz zq) xq yq zq.
Proof. exact @Vinterp3R.vinterp3d_spec. Qed.

(* 3D: node values *)
Theorem C09_vinterp3d_node :
  forall (x y z v : arr R) (nx ny nz : Z),
       axis x nx ->
       axis y ny ->
       axis z nz ->
       shape v = [nx; ny; nz] ->
       forall (k l m : Z) (xsrc ysrc zsrc vzero fval : R),
       (0 <= k < nx)%Z ->
       (0 <= l < ny)%Z ->
       (0 <= m < nz)%Z ->
       let xq := get 0 x [k] in
       let yq := get 0 y [l] in
       let zq := get 0 z [m] in
       ~
       (searchsorted_right x xsrc = searchsorted_right x xq /\
        searchsorted_right y ysrc = searchsorted_right y yq /\ searchsorted_right z zsrc = searchsorted_right z zq) ->
       (forall k' l' m' : Z, used x nx xq k' -> used y ny yq l' -> used z nz zq m' -> get 0 v [k'; l'; m'] <> 0) ->
       u_vinterp3d_v x y z v xq yq zq xsrc ysrc zsrc vzero fval = get 0 v [k; l; m].
Proof. exact @Vinterp3R.vinterp3d_node. Qed.

(* 3D: physical bounds *)
Theorem C09_vinterp3d_bounds :
  forall (x y z v : arr R) (nx ny nz : Z),
       axis x nx ->
       axis y ny ->
       axis z nz ->
       shape v = [nx; ny; nz] ->
       forall xq yq zq xsrc ysrc zsrc vzero fval : R,
       get 0 x [0%Z] <= xq <= get 0 x [(nx - 1)%Z] ->
       get 0 y [0%Z] <= yq <= get 0 y [(ny - 1)%Z] ->
       get 0 z [0%Z] <= zq <= get 0 z [(nz - 1)%Z] ->
       forall lo hi : R,
       ~
       (searchsorted_right x xsrc = searchsorted_right x xq /\
        searchsorted_right y ysrc = searchsorted_right y yq /\ searchsorted_right z zsrc = searchsorted_right z zq) ->
       0 < lo ->
       (forall k l m : Z,
        used x nx xq k ->
        used y ny yq l -> used z nz zq m -> get 0 v [k; l; m] <> 0 /\ lo <= appvel3 x y z v xsrc ysrc zsrc k l m <= hi) ->
       sqrt ((xsrc - xq) ^ 2 + (ysrc - yq) ^ 2 + (zsrc - zq) ^ 2) / hi <=
       u_vinterp3d_v x y z v xq yq zq xsrc ysrc zsrc vzero fval <=
       sqrt ((xsrc - xq) ^ 2 + (ysrc - yq) ^ 2 + (zsrc - zq) ^ 2) / lo.
Proof. exact @Vinterp3R.vinterp3d_bounds. Qed.

(* 3D: exact on homogeneous times *)
Theorem C09_vinterp3d_homogeneous_exact :
  forall (x y z v : arr R) (nx ny nz : Z),
       axis x nx ->
       axis y ny ->
       axis z nz ->
       shape v = [nx; ny; nz] ->
       forall xq yq zq xsrc ysrc zsrc vzero fval : R,
       get 0 x [0%Z] <= xq <= get 0 x [(nx - 1)%Z] ->
       get 0 y [0%Z] <= yq <= get 0 y [(ny - 1)%Z] ->
       get 0 z [0%Z] <= zq <= get 0 z [(nz - 1)%Z] ->
       forall s : R,
       ~
       (searchsorted_right x xsrc = searchsorted_right x xq /\
        searchsorted_right y ysrc = searchsorted_right y yq /\ searchsorted_right z zsrc = searchsorted_right z zq) ->
       0 < s ->
       (forall k l m : Z,
        used x nx xq k ->
        used y ny yq l ->
        used z nz zq m ->
        0 < dist3d xsrc ysrc zsrc (get 0 x [k]) (get 0 y [l]) (get 0 z [m]) /\
        get 0 v [k; l; m] = s * dist3d xsrc ysrc zsrc (get 0 x [k]) (get 0 y [l]) (get 0 z [m])) ->
       u_vinterp3d_v x y z v xq yq zq xsrc ysrc zsrc vzero fval =
       s * sqrt ((xsrc - xq) ^ 2 + (ysrc - yq) ^ 2 + (zsrc - zq) ^ 2).
Proof. exact @Vinterp3R.vinterp3d_homogeneous_exact. Qed.

(* API layer, extracted from _grid.py on every run (gen/ApiGen.v): TraveltimeGrid2D.__call__ hands (zaxis, xaxis, grid, points as float64, the stored ABSOLUTE source, vzero, fill_value) to vinterp2d, parameter by parameter; fill_value defaults to NaN *)
Theorem C09_traveltime_call_wiring_2d :
  ApiGen.ttcall_2d_binding =
       [(String.String (Ascii.Ascii false false false true true true true false) String.EmptyString,
         String.String (Ascii.Ascii true true false false true true true false)
           (String.String (Ascii.Ascii true false true false false true true false)
              (String.String (Ascii.Ascii false false true true false true true false)
                 (String.String (Ascii.Ascii false true true false false true true false)
                    (String.String (Ascii.Ascii false true true true false true false false)
                       (String.String (Ascii.Ascii false true false true true true true false)
                          (String.String (Ascii.Ascii true false false false false true true false)
                             (String.String (Ascii.Ascii false false false true true true true false)
                                (String.String (Ascii.Ascii true false false true false true true false)
                                   (String.String (Ascii.Ascii true true false false true true true false)
                                      String.EmptyString))))))))));
        (String.String (Ascii.Ascii true false false true true true true false) String.EmptyString,
         String.String (Ascii.Ascii true true false false true true true false)
           (String.String (Ascii.Ascii true false true false false true true false)
              (String.String (Ascii.Ascii false false true true false true true false)
                 (String.String (Ascii.Ascii false true true false false true true false)
                    (String.String (Ascii.Ascii false true true true false true false false)
                       (String.String (Ascii.Ascii false false false true true true true false)
                          (String.String (Ascii.Ascii true false false false false true true false)
                             (String.String (Ascii.Ascii false false false true true true true false)
                                (String.String (Ascii.Ascii true false false true false true true false)
                                   (String.String (Ascii.Ascii true true false false true true true false)
                                      String.EmptyString))))))))));
        (String.String (Ascii.Ascii false true true false true true true false) String.EmptyString,
         String.String (Ascii.Ascii true true false false true true true false)
           (String.String (Ascii.Ascii true false true false false true true false)
              (String.String (Ascii.Ascii false false true true false true true false)
                 (String.String (Ascii.Ascii false true true false false true true false)
                    (String.String (Ascii.Ascii false true true true false true false false)
                       (String.String (Ascii.Ascii true true true true true false true false)
                          (String.String (Ascii.Ascii true true true false false true true false)
                             (String.String (Ascii.Ascii false true false false true true true false)
                                (String.String (Ascii.Ascii true false false true false true true false)
                                   (String.String (Ascii.Ascii false false true false false true true false)
                                      String.EmptyString))))))))));
        (String.String (Ascii.Ascii true false false false true true true false) String.EmptyString,
         String.String (Ascii.Ascii false true true true false true true false)
           (String.String (Ascii.Ascii false false false false true true true false)
              (String.String (Ascii.Ascii false true true true false true false false)
                 (String.String (Ascii.Ascii true false false false false true true false)
                    (String.String (Ascii.Ascii true true false false true true true false)
                       (String.String (Ascii.Ascii true false false false false true true false)
                          (String.String (Ascii.Ascii false true false false true true true false)
                             (String.String (Ascii.Ascii false true false false true true true false)
                                (String.String (Ascii.Ascii true false false false false true true false)
                                   (String.String (Ascii.Ascii true false false true true true true false)
                                      (String.String (Ascii.Ascii false false false true false true false false)
                                         (String.String (Ascii.Ascii false false false false true true true false)
                                            (String.String (Ascii.Ascii true true true true false true true false)
                                               (String.String (Ascii.Ascii true false false true false true true false)
                                                  (String.String
                                                     (Ascii.Ascii false true true true false true true false)
                                                     (String.String
                                                        (Ascii.Ascii false false true false true true true false)
                                                        (String.String
                                                           (Ascii.Ascii true true false false true true true false)
                                                           (String.String
                                                              (Ascii.Ascii false false true true false true false false)
                                                              (String.String
                                                                 (Ascii.Ascii false false false false false true false
                                                                    false)
                                                                 (String.String
                                                                    (Ascii.Ascii false false true false false true true
                                                                       false)
                                                                    (String.String
                                                                       (Ascii.Ascii false false true false true true
                                                                          true false)
                                                                       (String.String
                                                                          (Ascii.Ascii true false false true true true
                                                                             true false)
                                                                          (String.String
                                                                             (Ascii.Ascii false false false false true
                                                                                true true false)
                                                                             (String.String
                                                                                (Ascii.Ascii true false true false
                                                                                   false true true false)
                                                                                (String.String
                                                                                   (Ascii.Ascii true false true true
                                                                                      true true false false)
                                                                                   (String.String
                                                                                      (Ascii.Ascii false true true true
                                                                                         false true true false)
                                                                                      (String.String
                                                                                         (Ascii.Ascii false false false
                                                                                          false true true true false)
                                                                                         (String.String
                                                                                          (Ascii.Ascii false true true
                                                                                          true false true false false)
                                                                                          (String.String
                                                                                          (Ascii.Ascii false true true
                                                                                          false false true true false)
                                                                                          (String.String
                                                                                          (Ascii.Ascii false false true
                                                                                          true false true true false)
                                                                                          (String.String
                                                                                          (Ascii.Ascii true true true
                                                                                          true false true true false)
                                                                                          (String.String
                                                                                          (Ascii.Ascii true false false
                                                                                          false false true true false)
                                                                                          (String.String
                                                                                          (Ascii.Ascii false false true
                                                                                          false true true true false)
                                                                                          (String.String
                                                                                          (Ascii.Ascii false true true
                                                                                          false true true false false)
                                                                                          (String.String
                                                                                          (Ascii.Ascii false false true
                                                                                          false true true false false)
                                                                                          (String.String
                                                                                          (Ascii.Ascii true false false
                                                                                          true false true false false)
                                                                                          String.EmptyString))))))))))))))))))))))))))))))))))));
        (String.String (Ascii.Ascii true true false false true true true false)
           (String.String (Ascii.Ascii false true false false true true true false)
              (String.String (Ascii.Ascii true true false false false true true false) String.EmptyString)),
         String.String (Ascii.Ascii true true false false true true true false)
           (String.String (Ascii.Ascii true false true false false true true false)
              (String.String (Ascii.Ascii false false true true false true true false)
                 (String.String (Ascii.Ascii false true true false false true true false)
                    (String.String (Ascii.Ascii false true true true false true false false)
                       (String.String (Ascii.Ascii true true true true true false true false)
                          (String.String (Ascii.Ascii true true false false true true true false)
                             (String.String (Ascii.Ascii true true true true false true true false)
                                (String.String (Ascii.Ascii true false true false true true true false)
                                   (String.String (Ascii.Ascii false true false false true true true false)
                                      (String.String (Ascii.Ascii true true false false false true true false)
                                         (String.String (Ascii.Ascii true false true false false true true false)
                                            String.EmptyString))))))))))));
        (String.String (Ascii.Ascii false true true false true true true false)
           (String.String (Ascii.Ascii false true false true true true true false)
              (String.String (Ascii.Ascii true false true false false true true false)
                 (String.String (Ascii.Ascii false true false false true true true false)
                    (String.String (Ascii.Ascii true true true true false true true false) String.EmptyString)))),
         String.String (Ascii.Ascii true true false false true true true false)
           (String.String (Ascii.Ascii true false true false false true true false)
              (String.String (Ascii.Ascii false false true true false true true false)
                 (String.String (Ascii.Ascii false true true false false true true false)
                    (String.String (Ascii.Ascii false true true true false true false false)
                       (String.String (Ascii.Ascii true true true true true false true false)
                          (String.String (Ascii.Ascii false true true false true true true false)
                             (String.String (Ascii.Ascii false true false true true true true false)
                                (String.String (Ascii.Ascii true false true false false true true false)
                                   (String.String (Ascii.Ascii false true false false true true true false)
                                      (String.String (Ascii.Ascii true true true true false true true false)
                                         String.EmptyString)))))))))));
        (String.String (Ascii.Ascii false true true false false true true false)
           (String.String (Ascii.Ascii false true true false true true true false)
              (String.String (Ascii.Ascii true false false false false true true false)
                 (String.String (Ascii.Ascii false false true true false true true false) String.EmptyString))),
         String.String (Ascii.Ascii false true true false false true true false)
           (String.String (Ascii.Ascii true false false true false true true false)
              (String.String (Ascii.Ascii false false true true false true true false)
                 (String.String (Ascii.Ascii false false true true false true true false)
                    (String.String (Ascii.Ascii true true true true true false true false)
                       (String.String (Ascii.Ascii false true true false true true true false)
                          (String.String (Ascii.Ascii true false false false false true true false)
                             (String.String (Ascii.Ascii false false true true false true true false)
                                (String.String (Ascii.Ascii true false true false true true true false)
                                   (String.String (Ascii.Ascii true false true false false true true false)
                                      String.EmptyString))))))))))] /\
       fst ApiGen.ttcall_2d_call =
       String.String (Ascii.Ascii false true true false true true true false)
         (String.String (Ascii.Ascii true false false true false true true false)
            (String.String (Ascii.Ascii false true true true false true true false)
               (String.String (Ascii.Ascii false false true false true true true false)
                  (String.String (Ascii.Ascii true false true false false true true false)
                     (String.String (Ascii.Ascii false true false false true true true false)
                        (String.String (Ascii.Ascii false false false false true true true false)
                           (String.String (Ascii.Ascii false true false false true true false false)
                              (String.String (Ascii.Ascii false false true false false true true false)
                                 String.EmptyString)))))))) /\
       map fst ApiGen.ttcall_2d_binding = ApiGen.vinterp2d_params /\
       map snd ApiGen.ttcall_2d_binding = snd ApiGen.ttcall_2d_call /\
       ApiGen.ttcall_2d_params =
       [String.String (Ascii.Ascii false false false false true true true false)
          (String.String (Ascii.Ascii true true true true false true true false)
             (String.String (Ascii.Ascii true false false true false true true false)
                (String.String (Ascii.Ascii false true true true false true true false)
                   (String.String (Ascii.Ascii false false true false true true true false)
                      (String.String (Ascii.Ascii true true false false true true true false) String.EmptyString)))));
        String.String (Ascii.Ascii false true true false false true true false)
          (String.String (Ascii.Ascii true false false true false true true false)
             (String.String (Ascii.Ascii false false true true false true true false)
                (String.String (Ascii.Ascii false false true true false true true false)
                   (String.String (Ascii.Ascii true true true true true false true false)
                      (String.String (Ascii.Ascii false true true false true true true false)
                         (String.String (Ascii.Ascii true false false false false true true false)
                            (String.String (Ascii.Ascii false false true true false true true false)
                               (String.String (Ascii.Ascii true false true false true true true false)
                                  (String.String (Ascii.Ascii true false true false false true true false)
                                     (String.String (Ascii.Ascii true false true true true true false false)
                                        (String.String (Ascii.Ascii false true true true false true true false)
                                           (String.String (Ascii.Ascii false false false false true true true false)
                                              (String.String (Ascii.Ascii false true true true false true false false)
                                                 (String.String
                                                    (Ascii.Ascii false true true true false true true false)
                                                    (String.String
                                                       (Ascii.Ascii true false false false false true true false)
                                                       (String.String
                                                          (Ascii.Ascii false true true true false true true false)
                                                          String.EmptyString))))))))))))))))] /\
       ApiGen.vinterp2d_defaults =
       [(String.String (Ascii.Ascii false true true false false true true false)
           (String.String (Ascii.Ascii false true true false true true true false)
              (String.String (Ascii.Ascii true false false false false true true false)
                 (String.String (Ascii.Ascii false false true true false true true false) String.EmptyString))),
         String.String (Ascii.Ascii false true true true false true true false)
           (String.String (Ascii.Ascii false false false false true true true false)
              (String.String (Ascii.Ascii false true true true false true false false)
                 (String.String (Ascii.Ascii false true true true false true true false)
                    (String.String (Ascii.Ascii true false false false false true true false)
                       (String.String (Ascii.Ascii false true true true false true true false) String.EmptyString))))))].
Proof. exact @ApiGenEq.gen_ttcall_2d_wiring. Qed.

(* 3D *)
Theorem C09_traveltime_call_wiring_3d :
  ApiGen.ttcall_3d_binding =
       [(String.String (Ascii.Ascii false false false true true true true false) String.EmptyString,
         String.String (Ascii.Ascii true true false false true true true false)
           (String.String (Ascii.Ascii true false true false false true true false)
              (String.String (Ascii.Ascii false false true true false true true false)
                 (String.String (Ascii.Ascii false true true false false true true false)
                    (String.String (Ascii.Ascii false true true true false true false false)
                       (String.String (Ascii.Ascii false true false true true true true false)
                          (String.String (Ascii.Ascii true false false false false true true false)
                             (String.String (Ascii.Ascii false false false true true true true false)
                                (String.String (Ascii.Ascii true false false true false true true false)
                                   (String.String (Ascii.Ascii true true false false true true true false)
                                      String.EmptyString))))))))));
        (String.String (Ascii.Ascii true false false true true true true false) String.EmptyString,
         String.String (Ascii.Ascii true true false false true true true false)
           (String.String (Ascii.Ascii true false true false false true true false)
              (String.String (Ascii.Ascii false false true true false true true false)
                 (String.String (Ascii.Ascii false true true false false true true false)
                    (String.String (Ascii.Ascii false true true true false true false false)
                       (String.String (Ascii.Ascii false false false true true true true false)
                          (String.String (Ascii.Ascii true false false false false true true false)
                             (String.String (Ascii.Ascii false false false true true true true false)
                                (String.String (Ascii.Ascii true false false true false true true false)
                                   (String.String (Ascii.Ascii true true false false true true true false)
                                      String.EmptyString))))))))));
        (String.String (Ascii.Ascii false true false true true true true false) String.EmptyString,
         String.String (Ascii.Ascii true true false false true true true false)
           (String.String (Ascii.Ascii true false true false false true true false)
              (String.String (Ascii.Ascii false false true true false true true false)
                 (String.String (Ascii.Ascii false true true false false true true false)
                    (String.String (Ascii.Ascii false true true true false true false false)
                       (String.String (Ascii.Ascii true false false true true true true false)
                          (String.String (Ascii.Ascii true false false false false true true false)
                             (String.String (Ascii.Ascii false false false true true true true false)
                                (String.String (Ascii.Ascii true false false true false true true false)
                                   (String.String (Ascii.Ascii true true false false true true true false)
                                      String.EmptyString))))))))));
        (String.String (Ascii.Ascii false true true false true true true false) String.EmptyString,
         String.String (Ascii.Ascii true true false false true true true false)
           (String.String (Ascii.Ascii true false true false false true true false)
              (String.String (Ascii.Ascii false false true true false true true false)
                 (String.String (Ascii.Ascii false true true false false true true false)
                    (String.String (Ascii.Ascii false true true true false true false false)
                       (String.String (Ascii.Ascii true true true true true false true false)
                          (String.String (Ascii.Ascii true true true false false true true false)
                             (String.String (Ascii.Ascii false true false false true true true false)
                                (String.String (Ascii.Ascii true false false true false true true false)
                                   (String.String (Ascii.Ascii false false true false false true true false)
                                      String.EmptyString))))))))));
        (String.String (Ascii.Ascii true false false false true true true false) String.EmptyString,
         String.String (Ascii.Ascii false true true true false true true false)
           (String.String (Ascii.Ascii false false false false true true true false)
              (String.String (Ascii.Ascii false true true true false true false false)
                 (String.String (Ascii.Ascii true false false false false true true false)
                    (String.String (Ascii.Ascii true true false false true true true false)
                       (String.String (Ascii.Ascii true false false false false true true false)
                          (String.String (Ascii.Ascii false true false false true true true false)
                             (String.String (Ascii.Ascii false true false false true true true false)
                                (String.String (Ascii.Ascii true false false false false true true false)
                                   (String.String (Ascii.Ascii true false false true true true true false)
                                      (String.String (Ascii.Ascii false false false true false true false false)
                                         (String.String (Ascii.Ascii false false false false true true true false)
                                            (String.String (Ascii.Ascii true true true true false true true false)
                                               (String.String (Ascii.Ascii true false false true false true true false)
                                                  (String.String
                                                     (Ascii.Ascii false true true true false true true false)
                                                     (String.String
                                                        (Ascii.Ascii false false true false true true true false)
                                                        (String.String
                                                           (Ascii.Ascii true true false false true true true false)
                                                           (String.String
                                                              (Ascii.Ascii false false true true false true false false)
                                                              (String.String
                                                                 (Ascii.Ascii false false false false false true false
                                                                    false)
                                                                 (String.String
                                                                    (Ascii.Ascii false false true false false true true
                                                                       false)
                                                                    (String.String
                                                                       (Ascii.Ascii false false true false true true
                                                                          true false)
                                                                       (String.String
                                                                          (Ascii.Ascii true false false true true true
                                                                             true false)
                                                                          (String.String
                                                                             (Ascii.Ascii false false false false true
                                                                                true true false)
                                                                             (String.String
                                                                                (Ascii.Ascii true false true false
                                                                                   false true true false)
                                                                                (String.String
                                                                                   (Ascii.Ascii true false true true
                                                                                      true true false false)
                                                                                   (String.String
                                                                                      (Ascii.Ascii false true true true
                                                                                         false true true false)
                                                                                      (String.String
                                                                                         (Ascii.Ascii false false false
                                                                                          false true true true false)
                                                                                         (String.String
                                                                                          (Ascii.Ascii false true true
                                                                                          true false true false false)
                                                                                          (String.String
                                                                                          (Ascii.Ascii false true true
                                                                                          false false true true false)
                                                                                          (String.String
                                                                                          (Ascii.Ascii false false true
                                                                                          true false true true false)
                                                                                          (String.String
                                                                                          (Ascii.Ascii true true true
                                                                                          true false true true false)
                                                                                          (String.String
                                                                                          (Ascii.Ascii true false false
                                                                                          false false true true false)
                                                                                          (String.String
                                                                                          (Ascii.Ascii false false true
                                                                                          false true true true false)
                                                                                          (String.String
                                                                                          (Ascii.Ascii false true true
                                                                                          false true true false false)
                                                                                          (String.String
                                                                                          (Ascii.Ascii false false true
                                                                                          false true true false false)
                                                                                          (String.String
                                                                                          (Ascii.Ascii true false false
                                                                                          true false true false false)
                                                                                          String.EmptyString))))))))))))))))))))))))))))))))))));
        (String.String (Ascii.Ascii true true false false true true true false)
           (String.String (Ascii.Ascii false true false false true true true false)
              (String.String (Ascii.Ascii true true false false false true true false) String.EmptyString)),
         String.String (Ascii.Ascii true true false false true true true false)
           (String.String (Ascii.Ascii true false true false false true true false)
              (String.String (Ascii.Ascii false false true true false true true false)
                 (String.String (Ascii.Ascii false true true false false true true false)
                    (String.String (Ascii.Ascii false true true true false true false false)
                       (String.String (Ascii.Ascii true true true true true false true false)
                          (String.String (Ascii.Ascii true true false false true true true false)
                             (String.String (Ascii.Ascii true true true true false true true false)
                                (String.String (Ascii.Ascii true false true false true true true false)
                                   (String.String (Ascii.Ascii false true false false true true true false)
                                      (String.String (Ascii.Ascii true true false false false true true false)
                                         (String.String (Ascii.Ascii true false true false false true true false)
                                            String.EmptyString))))))))))));
        (String.String (Ascii.Ascii false true true false true true true false)
           (String.String (Ascii.Ascii false true false true true true true false)
              (String.String (Ascii.Ascii true false true false false true true false)
                 (String.String (Ascii.Ascii false true false false true true true false)
                    (String.String (Ascii.Ascii true true true true false true true false) String.EmptyString)))),
         String.String (Ascii.Ascii true true false false true true true false)
           (String.String (Ascii.Ascii true false true false false true true false)
              (String.String (Ascii.Ascii false false true true false true true false)
                 (String.String (Ascii.Ascii false true true false false true true false)
                    (String.String (Ascii.Ascii false true true true false true false false)
                       (String.String (Ascii.Ascii true true true true true false true false)
                          (String.String (Ascii.Ascii false true true false true true true false)
                             (String.String (Ascii.Ascii false true false true true true true false)
                                (String.String (Ascii.Ascii true false true false false true true false)
                                   (String.String (Ascii.Ascii false true false false true true true false)
                                      (String.String (Ascii.Ascii true true true true false true true false)
                                         String.EmptyString)))))))))));
        (String.String (Ascii.Ascii false true true false false true true false)
           (String.String (Ascii.Ascii false true true false true true true false)
              (String.String (Ascii.Ascii true false false false false true true false)
                 (String.String (Ascii.Ascii false false true true false true true false) String.EmptyString))),
         String.String (Ascii.Ascii false true true false false true true false)
           (String.String (Ascii.Ascii true false false true false true true false)
              (String.String (Ascii.Ascii false false true true false true true false)
                 (String.String (Ascii.Ascii false false true true false true true false)
                    (String.String (Ascii.Ascii true true true true true false true false)
                       (String.String (Ascii.Ascii false true true false true true true false)
                          (String.String (Ascii.Ascii true false false false false true true false)
                             (String.String (Ascii.Ascii false false true true false true true false)
                                (String.String (Ascii.Ascii true false true false true true true false)
                                   (String.String (Ascii.Ascii true false true false false true true false)
                                      String.EmptyString))))))))))] /\
       fst ApiGen.ttcall_3d_call =
       String.String (Ascii.Ascii false true true false true true true false)
         (String.String (Ascii.Ascii true false false true false true true false)
            (String.String (Ascii.Ascii false true true true false true true false)
               (String.String (Ascii.Ascii false false true false true true true false)
                  (String.String (Ascii.Ascii true false true false false true true false)
                     (String.String (Ascii.Ascii false true false false true true true false)
                        (String.String (Ascii.Ascii false false false false true true true false)
                           (String.String (Ascii.Ascii true true false false true true false false)
                              (String.String (Ascii.Ascii false false true false false true true false)
                                 String.EmptyString)))))))) /\
       map fst ApiGen.ttcall_3d_binding = ApiGen.vinterp3d_params /\
       map snd ApiGen.ttcall_3d_binding = snd ApiGen.ttcall_3d_call /\
       ApiGen.ttcall_3d_params =
       [String.String (Ascii.Ascii false false false false true true true false)
          (String.String (Ascii.Ascii true true true true false true true false)
             (String.String (Ascii.Ascii true false false true false true true false)
                (String.String (Ascii.Ascii false true true true false true true false)
                   (String.String (Ascii.Ascii false false true false true true true false)
                      (String.String (Ascii.Ascii true true false false true true true false) String.EmptyString)))));
        String.String (Ascii.Ascii false true true false false true true false)
          (String.String (Ascii.Ascii true false false true false true true false)
             (String.String (Ascii.Ascii false false true true false true true false)
                (String.String (Ascii.Ascii false false true true false true true false)
                   (String.String (Ascii.Ascii true true true true true false true false)
                      (String.String (Ascii.Ascii false true true false true true true false)
                         (String.String (Ascii.Ascii true false false false false true true false)
                            (String.String (Ascii.Ascii false false true true false true true false)
                               (String.String (Ascii.Ascii true false true false true true true false)
                                  (String.String (Ascii.Ascii true false true false false true true false)
                                     (String.String (Ascii.Ascii true false true true true true false false)
                                        (String.String (Ascii.Ascii false true true true false true true false)
                                           (String.String (Ascii.Ascii false false false false true true true false)
                                              (String.String (Ascii.Ascii false true true true false true false false)
                                                 (String.String
                                                    (Ascii.Ascii false true true true false true true false)
                                                    (String.String
                                                       (Ascii.Ascii true false false false false true true false)
                                                       (String.String
                                                          (Ascii.Ascii false true true true false true true false)
                                                          String.EmptyString))))))))))))))))] /\
       ApiGen.vinterp3d_defaults =
       [(String.String (Ascii.Ascii false true true false false true true false)
           (String.String (Ascii.Ascii false true true false true true true false)
              (String.String (Ascii.Ascii true false false false false true true false)
                 (String.String (Ascii.Ascii false false true true false true true false) String.EmptyString))),
         String.String (Ascii.Ascii false true true true false true true false)
           (String.String (Ascii.Ascii false false false false true true true false)
              (String.String (Ascii.Ascii false true true true false true false false)
                 (String.String (Ascii.Ascii false true true true false true true false)
                    (String.String (Ascii.Ascii true false false false false true true false)
                       (String.String (Ascii.Ascii false true true true false true true false) String.EmptyString))))))].
Proof. exact @ApiGenEq.gen_ttcall_3d_wiring. Qed.

(* which constructor keyword is stored in which attribute (grid, gridsize, origin, source, gradient, vzero), with the float64 conversions *)
Theorem C09_traveltime_grid_constructor_2d :
  ApiGen.ttinit_2d_params =
       [String.String (Ascii.Ascii true true true false false true true false)
          (String.String (Ascii.Ascii false true false false true true true false)
             (String.String (Ascii.Ascii true false false true false true true false)
                (String.String (Ascii.Ascii false false true false false true true false) String.EmptyString)));
        String.String (Ascii.Ascii true true true false false true true false)
          (String.String (Ascii.Ascii false true false false true true true false)
             (String.String (Ascii.Ascii true false false true false true true false)
                (String.String (Ascii.Ascii false false true false false true true false)
                   (String.String (Ascii.Ascii true true false false true true true false)
                      (String.String (Ascii.Ascii true false false true false true true false)
                         (String.String (Ascii.Ascii false true false true true true true false)
                            (String.String (Ascii.Ascii true false true false false true true false) String.EmptyString)))))));
        String.String (Ascii.Ascii true true true true false true true false)
          (String.String (Ascii.Ascii false true false false true true true false)
             (String.String (Ascii.Ascii true false false true false true true false)
                (String.String (Ascii.Ascii true true true false false true true false)
                   (String.String (Ascii.Ascii true false false true false true true false)
                      (String.String (Ascii.Ascii false true true true false true true false) String.EmptyString)))));
        String.String (Ascii.Ascii true true false false true true true false)
          (String.String (Ascii.Ascii true true true true false true true false)
             (String.String (Ascii.Ascii true false true false true true true false)
                (String.String (Ascii.Ascii false true false false true true true false)
                   (String.String (Ascii.Ascii true true false false false true true false)
                      (String.String (Ascii.Ascii true false true false false true true false) String.EmptyString)))));
        String.String (Ascii.Ascii true true true false false true true false)
          (String.String (Ascii.Ascii false true false false true true true false)
             (String.String (Ascii.Ascii true false false false false true true false)
                (String.String (Ascii.Ascii false false true false false true true false)
                   (String.String (Ascii.Ascii true false false true false true true false)
                      (String.String (Ascii.Ascii true false true false false true true false)
                         (String.String (Ascii.Ascii false true true true false true true false)
                            (String.String (Ascii.Ascii false false true false true true true false) String.EmptyString)))))));
        String.String (Ascii.Ascii false true true false true true true false)
          (String.String (Ascii.Ascii false true false true true true true false)
             (String.String (Ascii.Ascii true false true false false true true false)
                (String.String (Ascii.Ascii false true false false true true true false)
                   (String.String (Ascii.Ascii true true true true false true true false) String.EmptyString))))] /\
       ApiGen.ttinit_2d_super =
       [(String.String (Ascii.Ascii true true true false false true true false)
           (String.String (Ascii.Ascii false true false false true true true false)
              (String.String (Ascii.Ascii true false false true false true true false)
                 (String.String (Ascii.Ascii false false true false false true true false) String.EmptyString))),
         String.String (Ascii.Ascii true true true false false true true false)
           (String.String (Ascii.Ascii false true false false true true true false)
              (String.String (Ascii.Ascii true false false true false true true false)
                 (String.String (Ascii.Ascii false false true false false true true false) String.EmptyString))));
        (String.String (Ascii.Ascii true true true false false true true false)
           (String.String (Ascii.Ascii false true false false true true true false)
              (String.String (Ascii.Ascii true false false true false true true false)
                 (String.String (Ascii.Ascii false false true false false true true false)
                    (String.String (Ascii.Ascii true true false false true true true false)
                       (String.String (Ascii.Ascii true false false true false true true false)
                          (String.String (Ascii.Ascii false true false true true true true false)
                             (String.String (Ascii.Ascii true false true false false true true false)
                                String.EmptyString))))))),
         String.String (Ascii.Ascii true true true false false true true false)
           (String.String (Ascii.Ascii false true false false true true true false)
              (String.String (Ascii.Ascii true false false true false true true false)
                 (String.String (Ascii.Ascii false false true false false true true false)
                    (String.String (Ascii.Ascii true true false false true true true false)
                       (String.String (Ascii.Ascii true false false true false true true false)
                          (String.String (Ascii.Ascii false true false true true true true false)
                             (String.String (Ascii.Ascii true false true false false true true false)
                                String.EmptyString))))))));
        (String.String (Ascii.Ascii true true true true false true true false)
           (String.String (Ascii.Ascii false true false false true true true false)
              (String.String (Ascii.Ascii true false false true false true true false)
                 (String.String (Ascii.Ascii true true true false false true true false)
                    (String.String (Ascii.Ascii true false false true false true true false)
                       (String.String (Ascii.Ascii false true true true false true true false) String.EmptyString))))),
         String.String (Ascii.Ascii false true true true false true true false)
           (String.String (Ascii.Ascii false false false false true true true false)
              (String.String (Ascii.Ascii false true true true false true false false)
                 (String.String (Ascii.Ascii true false false false false true true false)
                    (String.String (Ascii.Ascii true true false false true true true false)
                       (String.String (Ascii.Ascii true false false false false true true false)
                          (String.String (Ascii.Ascii false true false false true true true false)
                             (String.String (Ascii.Ascii false true false false true true true false)
                                (String.String (Ascii.Ascii true false false false false true true false)
                                   (String.String (Ascii.Ascii true false false true true true true false)
                                      (String.String (Ascii.Ascii false false false true false true false false)
                                         (String.String (Ascii.Ascii true true true true false true true false)
                                            (String.String (Ascii.Ascii false true false false true true true false)
                                               (String.String (Ascii.Ascii true false false true false true true false)
                                                  (String.String
                                                     (Ascii.Ascii true true true false false true true false)
                                                     (String.String
                                                        (Ascii.Ascii true false false true false true true false)
                                                        (String.String
                                                           (Ascii.Ascii false true true true false true true false)
                                                           (String.String
                                                              (Ascii.Ascii false false true true false true false false)
                                                              (String.String
                                                                 (Ascii.Ascii false false false false false true false
                                                                    false)
                                                                 (String.String
                                                                    (Ascii.Ascii false false true false false true true
                                                                       false)
                                                                    (String.String
                                                                       (Ascii.Ascii false false true false true true
                                                                          true false)
                                                                       (String.String
                                                                          (Ascii.Ascii true false false true true true
                                                                             true false)
                                                                          (String.String
                                                                             (Ascii.Ascii false false false false true
                                                                                true true false)
                                                                             (String.String
                                                                                (Ascii.Ascii true false true false
                                                                                   false true true false)
                                                                                (String.String
                                                                                   (Ascii.Ascii true false true true
                                                                                      true true false false)
                                                                                   (String.String
                                                                                      (Ascii.Ascii false true true true
                                                                                         false true true false)
                                                                                      (String.String
                                                                                         (Ascii.Ascii false false false
                                                                                          false true true true false)
                                                                                         (String.String
                                                                                          (Ascii.Ascii false true true
                                                                                          true false true false false)
                                                                                          (String.String
                                                                                          (Ascii.Ascii false true true
                                                                                          false false true true false)
                                                                                          (String.String
                                                                                          (Ascii.Ascii false false true
                                                                                          true false true true false)
                                                                                          (String.String
                                                                                          (Ascii.Ascii true true true
                                                                                          true false true true false)
                                                                                          (String.String
                                                                                          (Ascii.Ascii true false false
                                                                                          false false true true false)
                                                                                          (String.String
                                                                                          (Ascii.Ascii false false true
                                                                                          false true true true false)
                                                                                          (String.String
                                                                                          (Ascii.Ascii false true true
                                                                                          false true true false false)
                                                                                          (String.String
                                                                                          (Ascii.Ascii false false true
                                                                                          false true true false false)
                                                                                          (String.String
                                                                                          (Ascii.Ascii true false false
                                                                                          true false true false false)
                                                                                          String.EmptyString))))))))))))))))))))))))))))))))))));
        (String.String (Ascii.Ascii true true false false true true true false)
           (String.String (Ascii.Ascii true true true true false true true false)
              (String.String (Ascii.Ascii true false true false true true true false)
                 (String.String (Ascii.Ascii false true false false true true true false)
                    (String.String (Ascii.Ascii true true false false false true true false)
                       (String.String (Ascii.Ascii true false true false false true true false) String.EmptyString))))),
         String.String (Ascii.Ascii false true true true false true true false)
           (String.String (Ascii.Ascii false false false false true true true false)
              (String.String (Ascii.Ascii false true true true false true false false)
                 (String.String (Ascii.Ascii true false false false false true true false)
                    (String.String (Ascii.Ascii true true false false true true true false)
                       (String.String (Ascii.Ascii true false false false false true true false)
                          (String.String (Ascii.Ascii false true false false true true true false)
                             (String.String (Ascii.Ascii false true false false true true true false)
                                (String.String (Ascii.Ascii true false false false false true true false)
                                   (String.String (Ascii.Ascii true false false true true true true false)
                                      (String.String (Ascii.Ascii false false false true false true false false)
                                         (String.String (Ascii.Ascii true true false false true true true false)
                                            (String.String (Ascii.Ascii true true true true false true true false)
                                               (String.String (Ascii.Ascii true false true false true true true false)
                                                  (String.String
                                                     (Ascii.Ascii false true false false true true true false)
                                                     (String.String
                                                        (Ascii.Ascii true true false false false true true false)
                                                        (String.String
                                                           (Ascii.Ascii true false true false false true true false)
                                                           (String.String
                                                              (Ascii.Ascii false false true true false true false false)
                                                              (String.String
                                                                 (Ascii.Ascii false false false false false true false
                                                                    false)
                                                                 (String.String
                                                                    (Ascii.Ascii false false true false false true true
                                                                       false)
                                                                    (String.String
                                                                       (Ascii.Ascii false false true false true true
                                                                          true false)
                                                                       (String.String
                                                                          (Ascii.Ascii true false false true true true
                                                                             true false)
                                                                          (String.String
                                                                             (Ascii.Ascii false false false false true
                                                                                true true false)
                                                                             (String.String
                                                                                (Ascii.Ascii true false true false
                                                                                   false true true false)
                                                                                (String.String
                                                                                   (Ascii.Ascii true false true true
                                                                                      true true false false)
                                                                                   (String.String
                                                                                      (Ascii.Ascii false true true true
                                                                                         false true true false)
                                                                                      (String.String
                                                                                         (Ascii.Ascii false false false
                                                                                          false true true true false)
                                                                                         (String.String
                                                                                          (Ascii.Ascii false true true
                                                                                          true false true false false)
                                                                                          (String.String
                                                                                          (Ascii.Ascii false true true
                                                                                          false false true true false)
                                                                                          (String.String
                                                                                          (Ascii.Ascii false false true
                                                                                          true false true true false)
                                                                                          (String.String
                                                                                          (Ascii.Ascii true true true
                                                                                          true false true true false)
                                                                                          (String.String
                                                                                          (Ascii.Ascii true false false
                                                                                          false false true true false)
                                                                                          (String.String
                                                                                          (Ascii.Ascii false false true
                                                                                          false true true true false)
                                                                                          (String.String
                                                                                          (Ascii.Ascii false true true
                                                                                          false true true false false)
                                                                                          (String.String
                                                                                          (Ascii.Ascii false false true
                                                                                          false true true false false)
                                                                                          (String.String
                                                                                          (Ascii.Ascii true false false
                                                                                          true false true false false)
                                                                                          String.EmptyString))))))))))))))))))))))))))))))))))));
        (String.String (Ascii.Ascii true true true false false true true false)
           (String.String (Ascii.Ascii false true false false true true true false)
              (String.String (Ascii.Ascii true false false false false true true false)
                 (String.String (Ascii.Ascii false false true false false true true false)
                    (String.String (Ascii.Ascii true false false true false true true false)
                       (String.String (Ascii.Ascii true false true false false true true false)
                          (String.String (Ascii.Ascii false true true true false true true false)
                             (String.String (Ascii.Ascii false false true false true true true false)
                                String.EmptyString))))))),
         String.String (Ascii.Ascii false true true true false true true false)
           (String.String (Ascii.Ascii false false false false true true true false)
              (String.String (Ascii.Ascii false true true true false true false false)
                 (String.String (Ascii.Ascii true false false false false true true false)
                    (String.String (Ascii.Ascii true true false false true true true false)
                       (String.String (Ascii.Ascii true false false false false true true false)
                          (String.String (Ascii.Ascii false true false false true true true false)
                             (String.String (Ascii.Ascii false true false false true true true false)
                                (String.String (Ascii.Ascii true false false false false true true false)
                                   (String.String (Ascii.Ascii true false false true true true true false)
                                      (String.String (Ascii.Ascii false false false true false true false false)
                                         (String.String (Ascii.Ascii true true true false false true true false)
                                            (String.String (Ascii.Ascii false true false false true true true false)
                                               (String.String
                                                  (Ascii.Ascii true false false false false true true false)
                                                  (String.String
                                                     (Ascii.Ascii false false true false false true true false)
                                                     (String.String
                                                        (Ascii.Ascii true false false true false true true false)
                                                        (String.String
                                                           (Ascii.Ascii true false true false false true true false)
                                                           (String.String
                                                              (Ascii.Ascii false true true true false true true false)
                                                              (String.String
                                                                 (Ascii.Ascii false false true false true true true
                                                                    false)
                                                                 (String.String
                                                                    (Ascii.Ascii false false true true false true false
                                                                       false)
                                                                    (String.String
                                                                       (Ascii.Ascii false false false false false true
                                                                          false false)
                                                                       (String.String
                                                                          (Ascii.Ascii false false true false false
                                                                             true true false)
                                                                          (String.String
                                                                             (Ascii.Ascii false false true false true
                                                                                true true false)
                                                                             (String.String
                                                                                (Ascii.Ascii true false false true true
                                                                                   true true false)
                                                                                (String.String
                                                                                   (Ascii.Ascii false false false false
                                                                                      true true true false)
                                                                                   (String.String
                                                                                      (Ascii.Ascii true false true
                                                                                         false false true true false)
                                                                                      (String.String
                                                                                         (Ascii.Ascii true false true
                                                                                          true true true false false)
                                                                                         (String.String
                                                                                          (Ascii.Ascii false true true
                                                                                          true false true true false)
                                                                                          (String.String
                                                                                          (Ascii.Ascii false false
                                                                                          false false true true true
                                                                                          false)
                                                                                          (String.String
                                                                                          (Ascii.Ascii false true true
                                                                                          true false true false false)
                                                                                          (String.String
                                                                                          (Ascii.Ascii false true true
                                                                                          false false true true false)
                                                                                          (String.String
                                                                                          (Ascii.Ascii false false true
                                                                                          true false true true false)
                                                                                          (String.String
                                                                                          (Ascii.Ascii true true true
                                                                                          true false true true false)
                                                                                          (String.String
                                                                                          (Ascii.Ascii true false false
                                                                                          false false true true false)
                                                                                          (String.String
                                                                                          (Ascii.Ascii false false true
                                                                                          false true true true false)
                                                                                          (String.String
                                                                                          (Ascii.Ascii false true true
                                                                                          false true true false false)
                                                                                          (String.String
                                                                                          (Ascii.Ascii false false true
                                                                                          false true true false false)
                                                                                          (String.String
                                                                                          (Ascii.Ascii true false false
                                                                                          true false true false false)
                                                                                          (String.String
                                                                                          (Ascii.Ascii false false
                                                                                          false false false true false
                                                                                          false)
                                                                                          (String.String
                                                                                          (Ascii.Ascii true false false
                                                                                          true false true true false)
                                                                                          (String.String
                                                                                          (Ascii.Ascii false true true
                                                                                          false false true true false)
                                                                                          (String.String
                                                                                          (Ascii.Ascii false false
                                                                                          false false false true false
                                                                                          false)
                                                                                          (String.String
                                                                                          (Ascii.Ascii true true true
                                                                                          false false true true false)
                                                                                          (String.String
                                                                                          (Ascii.Ascii false true false
                                                                                          false true true true false)
                                                                                          (String.String
                                                                                          (Ascii.Ascii true false false
                                                                                          false false true true false)
                                                                                          (String.String
                                                                                          (Ascii.Ascii false false true
                                                                                          false false true true false)
                                                                                          (String.String
                                                                                          (Ascii.Ascii true false false
                                                                                          true false true true false)
                                                                                          (String.String
                                                                                          (Ascii.Ascii true false true
                                                                                          false false true true false)
                                                                                          (String.String
                                                                                          (Ascii.Ascii false true true
                                                                                          true false true true false)
                                                                                          (String.String
                                                                                          (Ascii.Ascii false false true
                                                                                          false true true true false)
                                                                                          (String.String
                                                                                          (Ascii.Ascii false false
                                                                                          false false false true false
                                                                                          false)
                                                                                          (String.String
                                                                                          (Ascii.Ascii true false false
                                                                                          true false true true false)
                                                                                          (String.String
                                                                                          (Ascii.Ascii true true false
                                                                                          false true true true false)
                                                                                          (String.String
                                                                                          (Ascii.Ascii false false
                                                                                          false false false true false
                                                                                          false)
                                                                                          (String.String
                                                                                          (Ascii.Ascii false true true
                                                                                          true false true true false)
                                                                                          (String.String
                                                                                          (Ascii.Ascii true true true
                                                                                          true false true true false)
                                                                                          (String.String
                                                                                          (Ascii.Ascii false false true
                                                                                          false true true true false)
                                                                                          (String.String
                                                                                          (Ascii.Ascii false false
                                                                                          false false false true false
                                                                                          false)
                                                                                          (String.String
                                                                                          (Ascii.Ascii false true true
                                                                                          true false false true false)
                                                                                          (String.String
                                                                                          (Ascii.Ascii true true true
                                                                                          true false true true false)
                                                                                          (String.String
                                                                                          (Ascii.Ascii false true true
                                                                                          true false true true false)
                                                                                          (String.String
                                                                                          (Ascii.Ascii true false true
                                                                                          false false true true false)
                                                                                          (String.String
                                                                                          (Ascii.Ascii false false
                                                                                          false false false true false
                                                                                          false)
                                                                                          (String.String
                                                                                          (Ascii.Ascii true false true
                                                                                          false false true true false)
                                                                                          (String.String
                                                                                          (Ascii.Ascii false false true
                                                                                          true false true true false)
                                                                                          (String.String
                                                                                          (Ascii.Ascii true true false
                                                                                          false true true true false)
                                                                                          (String.String
                                                                                          (Ascii.Ascii true false true
                                                                                          false false true true false)
                                                                                          (String.String
                                                                                          (Ascii.Ascii false false
                                                                                          false false false true false
                                                                                          false)
                                                                                          (String.String
                                                                                          (Ascii.Ascii false true true
                                                                                          true false false true false)
                                                                                          (String.String
                                                                                          (Ascii.Ascii true true true
                                                                                          true false true true false)
                                                                                          (String.String
                                                                                          (Ascii.Ascii false true true
                                                                                          true false true true false)
                                                                                          (String.String
                                                                                          (Ascii.Ascii true false true
                                                                                          false false true true false)
                                                                                          String.EmptyString))))))))))))))))))))))))))))))))))))))))))))))))))))))))))))))))))))))));
        (String.String (Ascii.Ascii false true true false true true true false)
           (String.String (Ascii.Ascii false true false true true true true false)
              (String.String (Ascii.Ascii true false true false false true true false)
                 (String.String (Ascii.Ascii false true false false true true true false)
                    (String.String (Ascii.Ascii true true true true false true true false) String.EmptyString)))),
         String.String (Ascii.Ascii false true true false true true true false)
           (String.String (Ascii.Ascii false true false true true true true false)
              (String.String (Ascii.Ascii true false true false false true true false)
                 (String.String (Ascii.Ascii false true false false true true true false)
                    (String.String (Ascii.Ascii true true true true false true true false) String.EmptyString)))))] /\
       ApiGen.ttinit_2d_stored =
       [(String.String (Ascii.Ascii true true true true true false true false)
           (String.String (Ascii.Ascii true true true false false true true false)
              (String.String (Ascii.Ascii false true false false true true true false)
                 (String.String (Ascii.Ascii true false false true false true true false)
                    (String.String (Ascii.Ascii false false true false false true true false) String.EmptyString)))),
         String.String (Ascii.Ascii false true true true false true true false)
           (String.String (Ascii.Ascii false false false false true true true false)
              (String.String (Ascii.Ascii false true true true false true false false)
                 (String.String (Ascii.Ascii true false false false false true true false)
                    (String.String (Ascii.Ascii true true false false true true true false)
                       (String.String (Ascii.Ascii true false false false false true true false)
                          (String.String (Ascii.Ascii false true false false true true true false)
                             (String.String (Ascii.Ascii false true false false true true true false)
                                (String.String (Ascii.Ascii true false false false false true true false)
                                   (String.String (Ascii.Ascii true false false true true true true false)
                                      (String.String (Ascii.Ascii false false false true false true false false)
                                         (String.String (Ascii.Ascii true true true false false true true false)
                                            (String.String (Ascii.Ascii false true false false true true true false)
                                               (String.String (Ascii.Ascii true false false true false true true false)
                                                  (String.String
                                                     (Ascii.Ascii false false true false false true true false)
                                                     (String.String
                                                        (Ascii.Ascii false false true true false true false false)
                                                        (String.String
                                                           (Ascii.Ascii false false false false false true false false)
                                                           (String.String
                                                              (Ascii.Ascii false false true false false true true false)
                                                              (String.String
                                                                 (Ascii.Ascii false false true false true true true
                                                                    false)
                                                                 (String.String
                                                                    (Ascii.Ascii true false false true true true true
                                                                       false)
                                                                    (String.String
                                                                       (Ascii.Ascii false false false false true true
                                                                          true false)
                                                                       (String.String
                                                                          (Ascii.Ascii true false true false false true
                                                                             true false)
                                                                          (String.String
                                                                             (Ascii.Ascii true false true true true
                                                                                true false false)
                                                                             (String.String
                                                                                (Ascii.Ascii false true true true false
                                                                                   true true false)
                                                                                (String.String
                                                                                   (Ascii.Ascii false false false false
                                                                                      true true true false)
                                                                                   (String.String
                                                                                      (Ascii.Ascii false true true true
                                                                                         false true false false)
                                                                                      (String.String
                                                                                         (Ascii.Ascii false true true
                                                                                          false false true true false)
                                                                                         (String.String
                                                                                          (Ascii.Ascii false false true
                                                                                          true false true true false)
                                                                                          (String.String
                                                                                          (Ascii.Ascii true true true
                                                                                          true false true true false)
                                                                                          (String.String
                                                                                          (Ascii.Ascii true false false
                                                                                          false false true true false)
                                                                                          (String.String
                                                                                          (Ascii.Ascii false false true
                                                                                          false true true true false)
                                                                                          (String.String
                                                                                          (Ascii.Ascii false true true
                                                                                          false true true false false)
                                                                                          (String.String
                                                                                          (Ascii.Ascii false false true
                                                                                          false true true false false)
                                                                                          (String.String
                                                                                          (Ascii.Ascii true false false
                                                                                          true false true false false)
                                                                                          String.EmptyString))))))))))))))))))))))))))))))))));
        (String.String (Ascii.Ascii true true true true true false true false)
           (String.String (Ascii.Ascii true true true false false true true false)
              (String.String (Ascii.Ascii false true false false true true true false)
                 (String.String (Ascii.Ascii true false false true false true true false)
                    (String.String (Ascii.Ascii false false true false false true true false)
                       (String.String (Ascii.Ascii true true false false true true true false)
                          (String.String (Ascii.Ascii true false false true false true true false)
                             (String.String (Ascii.Ascii false true false true true true true false)
                                (String.String (Ascii.Ascii true false true false false true true false)
                                   String.EmptyString)))))))),
         String.String (Ascii.Ascii false false true false true true true false)
           (String.String (Ascii.Ascii true false true false true true true false)
              (String.String (Ascii.Ascii false false false false true true true false)
                 (String.String (Ascii.Ascii false false true true false true true false)
                    (String.String (Ascii.Ascii true false true false false true true false)
                       (String.String (Ascii.Ascii false false false true false true false false)
                          (String.String (Ascii.Ascii false false false true false true false false)
                             (String.String (Ascii.Ascii false true true false false true true false)
                                (String.String (Ascii.Ascii false false true true false true true false)
                                   (String.String (Ascii.Ascii true true true true false true true false)
                                      (String.String (Ascii.Ascii true false false false false true true false)
                                         (String.String (Ascii.Ascii false false true false true true true false)
                                            (String.String (Ascii.Ascii false false false true false true false false)
                                               (String.String (Ascii.Ascii false false false true true true true false)
                                                  (String.String
                                                     (Ascii.Ascii true false false true false true false false)
                                                     (String.String
                                                        (Ascii.Ascii false false false false false true false false)
                                                        (String.String
                                                           (Ascii.Ascii false true true false false true true false)
                                                           (String.String
                                                              (Ascii.Ascii true true true true false true true false)
                                                              (String.String
                                                                 (Ascii.Ascii false true false false true true true
                                                                    false)
                                                                 (String.String
                                                                    (Ascii.Ascii false false false false false true
                                                                       false false)
                                                                    (String.String
                                                                       (Ascii.Ascii false false false true true true
                                                                          true false)
                                                                       (String.String
                                                                          (Ascii.Ascii false false false false false
                                                                             true false false)
                                                                          (String.String
                                                                             (Ascii.Ascii true false false true false
                                                                                true true false)
                                                                             (String.String
                                                                                (Ascii.Ascii false true true true false
                                                                                   true true false)
                                                                                (String.String
                                                                                   (Ascii.Ascii false false false false
                                                                                      false true false false)
                                                                                   (String.String
                                                                                      (Ascii.Ascii true true true false
                                                                                         false true true false)
                                                                                      (String.String
                                                                                         (Ascii.Ascii false true false
                                                                                          false true true true false)
                                                                                         (String.String
                                                                                          (Ascii.Ascii true false false
                                                                                          true false true true false)
                                                                                          (String.String
                                                                                          (Ascii.Ascii false false true
                                                                                          false false true true false)
                                                                                          (String.String
                                                                                          (Ascii.Ascii true true false
                                                                                          false true true true false)
                                                                                          (String.String
                                                                                          (Ascii.Ascii true false false
                                                                                          true false true true false)
                                                                                          (String.String
                                                                                          (Ascii.Ascii false true false
                                                                                          true true true true false)
                                                                                          (String.String
                                                                                          (Ascii.Ascii true false true
                                                                                          false false true true false)
                                                                                          (String.String
                                                                                          (Ascii.Ascii true false false
                                                                                          true false true false false)
                                                                                          (String.String
                                                                                          (Ascii.Ascii true false false
                                                                                          true false true false false)
                                                                                          String.EmptyString)))))))))))))))))))))))))))))))))));
        (String.String (Ascii.Ascii true true true true true false true false)
           (String.String (Ascii.Ascii true true true true false true true false)
              (String.String (Ascii.Ascii false true false false true true true false)
                 (String.String (Ascii.Ascii true false false true false true true false)
                    (String.String (Ascii.Ascii true true true false false true true false)
                       (String.String (Ascii.Ascii true false false true false true true false)
                          (String.String (Ascii.Ascii false true true true false true true false) String.EmptyString)))))),
         String.String (Ascii.Ascii false true true true false true true false)
           (String.String (Ascii.Ascii false false false false true true true false)
              (String.String (Ascii.Ascii false true true true false true false false)
                 (String.String (Ascii.Ascii true false false false false true true false)
                    (String.String (Ascii.Ascii true true false false true true true false)
                       (String.String (Ascii.Ascii true false false false false true true false)
                          (String.String (Ascii.Ascii false true false false true true true false)
                             (String.String (Ascii.Ascii false true false false true true true false)
                                (String.String (Ascii.Ascii true false false false false true true false)
                                   (String.String (Ascii.Ascii true false false true true true true false)
                                      (String.String (Ascii.Ascii false false false true false true false false)
                                         (String.String (Ascii.Ascii false true true true false true true false)
                                            (String.String (Ascii.Ascii false false false false true true true false)
                                               (String.String (Ascii.Ascii false true true true false true false false)
                                                  (String.String
                                                     (Ascii.Ascii true false false false false true true false)
                                                     (String.String
                                                        (Ascii.Ascii true true false false true true true false)
                                                        (String.String
                                                           (Ascii.Ascii true false false false false true true false)
                                                           (String.String
                                                              (Ascii.Ascii false true false false true true true false)
                                                              (String.String
                                                                 (Ascii.Ascii false true false false true true true
                                                                    false)
                                                                 (String.String
                                                                    (Ascii.Ascii true false false false false true true
                                                                       false)
                                                                    (String.String
                                                                       (Ascii.Ascii true false false true true true
                                                                          true false)
                                                                       (String.String
                                                                          (Ascii.Ascii false false false true false
                                                                             true false false)
                                                                          (String.String
                                                                             (Ascii.Ascii true true true true false
                                                                                true true false)
                                                                             (String.String
                                                                                (Ascii.Ascii false true false false
                                                                                   true true true false)
                                                                                (String.String
                                                                                   (Ascii.Ascii true false false true
                                                                                      false true true false)
                                                                                   (String.String
                                                                                      (Ascii.Ascii true true true false
                                                                                         false true true false)
                                                                                      (String.String
                                                                                         (Ascii.Ascii true false false
                                                                                          true false true true false)
                                                                                         (String.String
                                                                                          (Ascii.Ascii false true true
                                                                                          true false true true false)
                                                                                          (String.String
                                                                                          (Ascii.Ascii false false true
                                                                                          true false true false false)
                                                                                          (String.String
                                                                                          (Ascii.Ascii false false
                                                                                          false false false true false
                                                                                          false)
                                                                                          (String.String
                                                                                          (Ascii.Ascii false false true
                                                                                          false false true true false)
                                                                                          (String.String
                                                                                          (Ascii.Ascii false false true
                                                                                          false true true true false)
                                                                                          (String.String
                                                                                          (Ascii.Ascii true false false
                                                                                          true true true true false)
                                                                                          (String.String
                                                                                          (Ascii.Ascii false false
                                                                                          false false true true true
                                                                                          false)
                                                                                          (String.String
                                                                                          (Ascii.Ascii true false true
                                                                                          false false true true false)
                                                                                          (String.String
                                                                                          (Ascii.Ascii true false true
                                                                                          true true true false false)
                                                                                          (String.String
                                                                                          (Ascii.Ascii false true true
                                                                                          true false true true false)
                                                                                          (String.String
                                                                                          (Ascii.Ascii false false
                                                                                          false false true true true
                                                                                          false)
                                                                                          (String.String
                                                                                          (Ascii.Ascii false true true
                                                                                          true false true false false)
                                                                                          (String.String
                                                                                          (Ascii.Ascii false true true
                                                                                          false false true true false)
                                                                                          (String.String
                                                                                          (Ascii.Ascii false false true
                                                                                          true false true true false)
                                                                                          (String.String
                                                                                          (Ascii.Ascii true true true
                                                                                          true false true true false)
                                                                                          (String.String
                                                                                          (Ascii.Ascii true false false
                                                                                          false false true true false)
                                                                                          (String.String
                                                                                          (Ascii.Ascii false false true
                                                                                          false true true true false)
                                                                                          (String.String
                                                                                          (Ascii.Ascii false true true
                                                                                          false true true false false)
                                                                                          (String.String
                                                                                          (Ascii.Ascii false false true
                                                                                          false true true false false)
                                                                                          (String.String
                                                                                          (Ascii.Ascii true false false
                                                                                          true false true false false)
                                                                                          (String.String
                                                                                          (Ascii.Ascii false false true
                                                                                          true false true false false)
                                                                                          (String.String
                                                                                          (Ascii.Ascii false false
                                                                                          false false false true false
                                                                                          false)
                                                                                          (String.String
                                                                                          (Ascii.Ascii false false true
                                                                                          false false true true false)
                                                                                          (String.String
                                                                                          (Ascii.Ascii false false true
                                                                                          false true true true false)
                                                                                          (String.String
                                                                                          (Ascii.Ascii true false false
                                                                                          true true true true false)
                                                                                          (String.String
                                                                                          (Ascii.Ascii false false
                                                                                          false false true true true
                                                                                          false)
                                                                                          (String.String
                                                                                          (Ascii.Ascii true false true
                                                                                          false false true true false)
                                                                                          (String.String
                                                                                          (Ascii.Ascii true false true
                                                                                          true true true false false)
                                                                                          (String.String
                                                                                          (Ascii.Ascii false true true
                                                                                          true false true true false)
                                                                                          (String.String
                                                                                          (Ascii.Ascii false false
                                                                                          false false true true true
                                                                                          false)
                                                                                          (String.String
                                                                                          (Ascii.Ascii false true true
                                                                                          true false true false false)
                                                                                          (String.String
                                                                                          (Ascii.Ascii false true true
                                                                                          false false true true false)
                                                                                          (String.String
                                                                                          (Ascii.Ascii false false true
                                                                                          true false true true false)
                                                                                          (String.String
                                                                                          (Ascii.Ascii true true true
                                                                                          true false true true false)
                                                                                          (String.String
                                                                                          (Ascii.Ascii true false false
                                                                                          false false true true false)
                                                                                          (String.String
                                                                                          (Ascii.Ascii false false true
                                                                                          false true true true false)
                                                                                          (String.String
                                                                                          (Ascii.Ascii false true true
                                                                                          false true true false false)
                                                                                          (String.String
                                                                                          (Ascii.Ascii false false true
                                                                                          false true true false false)
                                                                                          (String.String
                                                                                          (Ascii.Ascii true false false
                                                                                          true false true false false)
                                                                                          String.EmptyString))))))))))))))))))))))))))))))))))))))))))))))))))))))))))))))))));
        (String.String (Ascii.Ascii true true true true true false true false)
           (String.String (Ascii.Ascii true true false false true true true false)
              (String.String (Ascii.Ascii true true true true false true true false)
                 (String.String (Ascii.Ascii true false true false true true true false)
                    (String.String (Ascii.Ascii false true false false true true true false)
                       (String.String (Ascii.Ascii true true false false false true true false)
                          (String.String (Ascii.Ascii true false true false false true true false) String.EmptyString)))))),
         String.String (Ascii.Ascii false true true true false true true false)
           (String.String (Ascii.Ascii false false false false true true true false)
              (String.String (Ascii.Ascii false true true true false true false false)
                 (String.String (Ascii.Ascii true false false false false true true false)
                    (String.String (Ascii.Ascii true true false false true true true false)
                       (String.String (Ascii.Ascii true false false false false true true false)
                          (String.String (Ascii.Ascii false true false false true true true false)
                             (String.String (Ascii.Ascii false true false false true true true false)
                                (String.String (Ascii.Ascii true false false false false true true false)
                                   (String.String (Ascii.Ascii true false false true true true true false)
                                      (String.String (Ascii.Ascii false false false true false true false false)
                                         (String.String (Ascii.Ascii true true false false true true true false)
                                            (String.String (Ascii.Ascii true true true true false true true false)
                                               (String.String (Ascii.Ascii true false true false true true true false)
                                                  (String.String
                                                     (Ascii.Ascii false true false false true true true false)
                                                     (String.String
                                                        (Ascii.Ascii true true false false false true true false)
                                                        (String.String
                                                           (Ascii.Ascii true false true false false true true false)
                                                           (String.String
                                                              (Ascii.Ascii false false true true false true false false)
                                                              (String.String
                                                                 (Ascii.Ascii false false false false false true false
                                                                    false)
                                                                 (String.String
                                                                    (Ascii.Ascii false false true false false true true
                                                                       false)
                                                                    (String.String
                                                                       (Ascii.Ascii false false true false true true
                                                                          true false)
                                                                       (String.String
                                                                          (Ascii.Ascii true false false true true true
                                                                             true false)
                                                                          (String.String
                                                                             (Ascii.Ascii false false false false true
                                                                                true true false)
                                                                             (String.String
                                                                                (Ascii.Ascii true false true false
                                                                                   false true true false)
                                                                                (String.String
                                                                                   (Ascii.Ascii true false true true
                                                                                      true true false false)
                                                                                   (String.String
                                                                                      (Ascii.Ascii false true true true
                                                                                         false true true false)
                                                                                      (String.String
                                                                                         (Ascii.Ascii false false false
                                                                                          false true true true false)
                                                                                         (String.String
                                                                                          (Ascii.Ascii false true true
                                                                                          true false true false false)
                                                                                          (String.String
                                                                                          (Ascii.Ascii false true true
                                                                                          false false true true false)
                                                                                          (String.String
                                                                                          (Ascii.Ascii false false true
                                                                                          true false true true false)
                                                                                          (String.String
                                                                                          (Ascii.Ascii true true true
                                                                                          true false true true false)
                                                                                          (String.String
                                                                                          (Ascii.Ascii true false false
                                                                                          false false true true false)
                                                                                          (String.String
                                                                                          (Ascii.Ascii false false true
                                                                                          false true true true false)
                                                                                          (String.String
                                                                                          (Ascii.Ascii false true true
                                                                                          false true true false false)
                                                                                          (String.String
                                                                                          (Ascii.Ascii false false true
                                                                                          false true true false false)
                                                                                          (String.String
                                                                                          (Ascii.Ascii true false false
                                                                                          true false true false false)
                                                                                          String.EmptyString))))))))))))))))))))))))))))))))))));
        (String.String (Ascii.Ascii true true true true true false true false)
           (String.String (Ascii.Ascii true true true false false true true false)
              (String.String (Ascii.Ascii false true false false true true true false)
                 (String.String (Ascii.Ascii true false false false false true true false)
                    (String.String (Ascii.Ascii false false true false false true true false)
                       (String.String (Ascii.Ascii true false false true false true true false)
                          (String.String (Ascii.Ascii true false true false false true true false)
                             (String.String (Ascii.Ascii false true true true false true true false)
                                (String.String (Ascii.Ascii false false true false true true true false)
                                   String.EmptyString)))))))),
         String.String (Ascii.Ascii false true true true false true true false)
           (String.String (Ascii.Ascii false false false false true true true false)
              (String.String (Ascii.Ascii false true true true false true false false)
                 (String.String (Ascii.Ascii true false false false false true true false)
                    (String.String (Ascii.Ascii true true false false true true true false)
                       (String.String (Ascii.Ascii true false false false false true true false)
                          (String.String (Ascii.Ascii false true false false true true true false)
                             (String.String (Ascii.Ascii false true false false true true true false)
                                (String.String (Ascii.Ascii true false false false false true true false)
                                   (String.String (Ascii.Ascii true false false true true true true false)
                                      (String.String (Ascii.Ascii false false false true false true false false)
                                         (String.String (Ascii.Ascii true true true false false true true false)
                                            (String.String (Ascii.Ascii false true false false true true true false)
                                               (String.String
                                                  (Ascii.Ascii true false false false false true true false)
                                                  (String.String
                                                     (Ascii.Ascii false false true false false true true false)
                                                     (String.String
                                                        (Ascii.Ascii true false false true false true true false)
                                                        (String.String
                                                           (Ascii.Ascii true false true false false true true false)
                                                           (String.String
                                                              (Ascii.Ascii false true true true false true true false)
                                                              (String.String
                                                                 (Ascii.Ascii false false true false true true true
                                                                    false)
                                                                 (String.String
                                                                    (Ascii.Ascii false false true true false true false
                                                                       false)
                                                                    (String.String
                                                                       (Ascii.Ascii false false false false false true
                                                                          false false)
                                                                       (String.String
                                                                          (Ascii.Ascii false false true false false
                                                                             true true false)
                                                                          (String.String
                                                                             (Ascii.Ascii false false true false true
                                                                                true true false)
                                                                             (String.String
                                                                                (Ascii.Ascii true false false true true
                                                                                   true true false)
                                                                                (String.String
                                                                                   (Ascii.Ascii false false false false
                                                                                      true true true false)
                                                                                   (String.String
                                                                                      (Ascii.Ascii true false true
                                                                                         false false true true false)
                                                                                      (String.String
                                                                                         (Ascii.Ascii true false true
                                                                                          true true true false false)
                                                                                         (String.String
                                                                                          (Ascii.Ascii false true true
                                                                                          true false true true false)
                                                                                          (String.String
                                                                                          (Ascii.Ascii false false
                                                                                          false false true true true
                                                                                          false)
                                                                                          (String.String
                                                                                          (Ascii.Ascii false true true
                                                                                          true false true false false)
                                                                                          (String.String
                                                                                          (Ascii.Ascii false true true
                                                                                          false false true true false)
                                                                                          (String.String
                                                                                          (Ascii.Ascii false false true
                                                                                          true false true true false)
                                                                                          (String.String
                                                                                          (Ascii.Ascii true true true
                                                                                          true false true true false)
                                                                                          (String.String
                                                                                          (Ascii.Ascii true false false
                                                                                          false false true true false)
                                                                                          (String.String
                                                                                          (Ascii.Ascii false false true
                                                                                          false true true true false)
                                                                                          (String.String
                                                                                          (Ascii.Ascii false true true
                                                                                          false true true false false)
                                                                                          (String.String
                                                                                          (Ascii.Ascii false false true
                                                                                          false true true false false)
                                                                                          (String.String
                                                                                          (Ascii.Ascii true false false
                                                                                          true false true false false)
                                                                                          (String.String
                                                                                          (Ascii.Ascii false false
                                                                                          false false false true false
                                                                                          false)
                                                                                          (String.String
                                                                                          (Ascii.Ascii true false false
                                                                                          true false true true false)
                                                                                          (String.String
                                                                                          (Ascii.Ascii false true true
                                                                                          false false true true false)
                                                                                          (String.String
                                                                                          (Ascii.Ascii false false
                                                                                          false false false true false
                                                                                          false)
                                                                                          (String.String
                                                                                          (Ascii.Ascii true true true
                                                                                          false false true true false)
                                                                                          (String.String
                                                                                          (Ascii.Ascii false true false
                                                                                          false true true true false)
                                                                                          (String.String
                                                                                          (Ascii.Ascii true false false
                                                                                          false false true true false)
                                                                                          (String.String
                                                                                          (Ascii.Ascii false false true
                                                                                          false false true true false)
                                                                                          (String.String
                                                                                          (Ascii.Ascii true false false
                                                                                          true false true true false)
                                                                                          (String.String
                                                                                          (Ascii.Ascii true false true
                                                                                          false false true true false)
                                                                                          (String.String
                                                                                          (Ascii.Ascii false true true
                                                                                          true false true true false)
                                                                                          (String.String
                                                                                          (Ascii.Ascii false false true
                                                                                          false true true true false)
                                                                                          (String.String
                                                                                          (Ascii.Ascii false false
                                                                                          false false false true false
                                                                                          false)
                                                                                          (String.String
                                                                                          (Ascii.Ascii true false false
                                                                                          true false true true false)
                                                                                          (String.String
                                                                                          (Ascii.Ascii true true false
                                                                                          false true true true false)
                                                                                          (String.String
                                                                                          (Ascii.Ascii false false
                                                                                          false false false true false
                                                                                          false)
                                                                                          (String.String
                                                                                          (Ascii.Ascii false true true
                                                                                          true false true true false)
                                                                                          (String.String
                                                                                          (Ascii.Ascii true true true
                                                                                          true false true true false)
                                                                                          (String.String
                                                                                          (Ascii.Ascii false false true
                                                                                          false true true true false)
                                                                                          (String.String
                                                                                          (Ascii.Ascii false false
                                                                                          false false false true false
                                                                                          false)
                                                                                          (String.String
                                                                                          (Ascii.Ascii false true true
                                                                                          true false false true false)
                                                                                          (String.String
                                                                                          (Ascii.Ascii true true true
                                                                                          true false true true false)
                                                                                          (String.String
                                                                                          (Ascii.Ascii false true true
                                                                                          true false true true false)
                                                                                          (String.String
                                                                                          (Ascii.Ascii true false true
                                                                                          false false true true false)
                                                                                          (String.String
                                                                                          (Ascii.Ascii false false
                                                                                          false false false true false
                                                                                          false)
                                                                                          (String.String
                                                                                          (Ascii.Ascii true false true
                                                                                          false false true true false)
                                                                                          (String.String
                                                                                          (Ascii.Ascii false false true
                                                                                          true false true true false)
                                                                                          (String.String
                                                                                          (Ascii.Ascii true true false
                                                                                          false true true true false)
                                                                                          (String.String
                                                                                          (Ascii.Ascii true false true
                                                                                          false false true true false)
                                                                                          (String.String
                                                                                          (Ascii.Ascii false false
                                                                                          false false false true false
                                                                                          false)
                                                                                          (String.String
                                                                                          (Ascii.Ascii false true true
                                                                                          true false false true false)
                                                                                          (String.String
                                                                                          (Ascii.Ascii true true true
                                                                                          true false true true false)
                                                                                          (String.String
                                                                                          (Ascii.Ascii false true true
                                                                                          true false true true false)
                                                                                          (String.String
                                                                                          (Ascii.Ascii true false true
                                                                                          false false true true false)
                                                                                          String.EmptyString))))))))))))))))))))))))))))))))))))))))))))))))))))))))))))))))))))))));
        (String.String (Ascii.Ascii true true true true true false true false)
           (String.String (Ascii.Ascii false true true false true true true false)
              (String.String (Ascii.Ascii false true false true true true true false)
                 (String.String (Ascii.Ascii true false true false false true true false)
                    (String.String (Ascii.Ascii false true false false true true true false)
                       (String.String (Ascii.Ascii true true true true false true true false) String.EmptyString))))),
         String.String (Ascii.Ascii false true true false true true true false)
           (String.String (Ascii.Ascii false true false true true true true false)
              (String.String (Ascii.Ascii true false true false false true true false)
                 (String.String (Ascii.Ascii false true false false true true true false)
                    (String.String (Ascii.Ascii true true true true false true true false) String.EmptyString)))))].
Proof. exact @ApiGenEq.gen_ttinit_2d. Qed.

(* 3D *)
Theorem C09_traveltime_grid_constructor_3d :
  ApiGen.ttinit_3d_params = ApiGen.ttinit_2d_params /\
       ApiGen.ttinit_3d_super = ApiGen.ttinit_2d_super /\ ApiGen.ttinit_3d_stored = ApiGen.ttinit_2d_stored.
Proof. exact @ApiGenEq.gen_ttinit_3d. Qed.

Print Assumptions C09_vinterp2d_outside.
Print Assumptions C09_vinterp2d_source_cell_any_instance.
Print Assumptions C09_vinterp2d_source.
Print Assumptions C09_vinterp2d_source_cell.
Print Assumptions C09_vinterp2d_zero_corner.
Print Assumptions C09_vinterp2d_spec.
Print Assumptions C09_vinterp2d_spec_far_faces.
Print Assumptions C09_vinterp2d_node.
Print Assumptions C09_vinterp2d_bounds.
Print Assumptions C09_vinterp2d_homogeneous_exact.
Print Assumptions C09_vinterp3d_outside.
Print Assumptions C09_vinterp3d_source.
Print Assumptions C09_vinterp3d_source_cell.
Print Assumptions C09_vinterp3d_zero_corner.
Print Assumptions C09_vinterp3d_spec.
Print Assumptions C09_vinterp3d_node.
Print Assumptions C09_vinterp3d_bounds.
Print Assumptions C09_vinterp3d_homogeneous_exact.
Print Assumptions C09_traveltime_call_wiring_2d.
Print Assumptions C09_traveltime_call_wiring_3d.
Print Assumptions C09_traveltime_grid_constructor_2d.
Print Assumptions C09_traveltime_grid_constructor_3d.
