(* C11  Gradient field: unit vectors that do not perturb the traveltimes (model: gen/Fteik2d.v, gen/Fteik3d.v, gen/Common.v)
   Only statements and `exact`: the proofs are in proofs/.  Written by tools/mkprops.py from Coq's own printing of the
   lemma statements; every statement is in full below so that it cannot be weakened without this file changing. *)
From Coq Require Import ZArith List Bool Reals Lia Lra.
From FT.lib Require Import Num Arr ArrLemmas Lower NumArr.
From FT.gen Require Import Common Interp2d Interp3d Vinterp2d Vinterp3d FteikCommon Fteik2d Fteik3d Ray2d Ray3d.
From FT.proofs Require Import Sweep2dProofs Sweep3dProofs GradR Solve2dProofs Solve3dProofs.
From FT.proofs Require GradUnit.
Import ListNotations.
Open Scope R_scope.

(* one node update: the traveltime written does not depend on the gradient flag nor on the sign array (every numeric instance: bit for bit) *)
Theorem C11_sweep_tt_independent_of_grad :
  forall (T : Type) (H : Num T) (tt : arr T) (ttsgn ttsgn' : arr Z) (slow : arr T) (dargs : T * T * T * T * T * T)
         (zsi xsi zsa xsa vzero : T) (i j sgnvz sgnvx sgntz sgntx nz nx : Z) (grad grad' : bool),
       fst (Fteik2d.sweep tt ttsgn slow dargs zsi xsi zsa xsa vzero i j sgnvz sgnvx sgntz sgntx nz nx grad) =
       fst (Fteik2d.sweep tt ttsgn' slow dargs zsi xsi zsa xsa vzero i j sgnvz sgnvx sgntz sgntx nz nx grad').
Proof. exact @Sweep2dProofs.sweep_tt_indep. Qed.

(* a whole 2D pass *)
Theorem C11_sweep2d_tt_independent_of_grad :
  forall (T : Type) (H : Num T) (nz nx : Z) (tt : arr T) (ttsgn ttsgn' : arr Z) (slow : arr T)
         (dz dx zsi xsi zsa xsa vzero : T) (grad grad' : bool),
       fst (sweep2d tt ttsgn slow dz dx zsi xsi zsa xsa vzero nz nx grad) =
       fst (sweep2d tt ttsgn' slow dz dx zsi xsi zsa xsa vzero nz nx grad').
Proof. exact @Sweep2dProofs.sweep2d_tt_indep. Qed.

(* a whole 3D pass *)
Theorem C11_sweep3d_tt_independent_of_grad :
  forall (T : Type) (H : Num T) (nz nx ny : Z) (tt : arr T) (ttsgn ttsgn' : arr Z) (slow : arr T) 
         (dz dx dy : T) (grad grad' : bool),
       fst (sweep3d tt ttsgn slow dz dx dy nz nx ny grad) = fst (sweep3d tt ttsgn' slow dz dx dy nz nx ny grad').
Proof. exact @Sweep3dProofs.sweep3d_tt_indep. Qed.

(* the whole 2D solver (source initialisation, sweeps, assembly): traveltime grid and source-cell slowness with return_gradient=True equal those without, in the source semantics (the compiled 3D build deviates by a few ulp: known finding F6) *)
Theorem C11_solve2d_tt_independent_of_grad :
  forall (T : Type) (H : Num T) (slow : arr T) (dz dx zsrc xsrc : T) (nsweep : Z),
       match fteik2d slow dz dx zsrc xsrc nsweep true with
       | Ok (t1, _, v1) =>
           match fteik2d slow dz dx zsrc xsrc nsweep false with
           | Ok (t2, _, v2) => t1 = t2 /\ v1 = v2
           | _ => False
           end
       | Raise e1 => match fteik2d slow dz dx zsrc xsrc nsweep false with
                     | Raise e2 => e1 = e2
                     | _ => False
                     end
       | OutOfFuel => False
       end.
Proof. exact @Solve2dProofs.fteik2d_tt_indep_of_grad. Qed.

(* the whole 3D solver *)
Theorem C11_solve3d_tt_independent_of_grad :
  forall (T : Type) (H : Num T) (slow : arr T) (dz dx dy zsrc xsrc ysrc : T) (nsweep : Z),
       match fteik3d slow dz dx dy zsrc xsrc ysrc nsweep true with
       | Ok (t1, _, v1) =>
           match fteik3d slow dz dx dy zsrc xsrc ysrc nsweep false with
           | Ok (t2, _, v2) => t1 = t2 /\ v1 = v2
           | _ => False
           end
       | Raise e1 =>
           match fteik3d slow dz dx dy zsrc xsrc ysrc nsweep false with
           | Raise e2 => e1 = e2
           | _ => False
           end
       | OutOfFuel => False
       end.
Proof. exact @Solve3dProofs.fteik3d_tt_indep_of_grad. Qed.

(* exact arithmetic: g / |g| has norm 1 (the assembly divides when |g| > 0) *)
Theorem C11_normalised_has_unit_norm_2d :
  forall a b : R, 0 < norm2d a b -> norm2d (a / norm2d a b) (b / norm2d a b) = 1.
Proof. exact @GradR.norm2d_normalised. Qed.

(* 3D *)
Theorem C11_normalised_has_unit_norm_3d :
  forall a b c : R, 0 < norm3d a b c -> norm3d (a / norm3d a b c) (b / norm3d a b c) (c / norm3d a b c) = 1.
Proof. exact @GradR.norm3d_normalised. Qed.

(* the test |g| > 0 fails only for the zero vector *)
Theorem C11_norm_zero_only_for_zero_vector :
  forall a b : R, norm2d a b = 0 <-> a = 0 /\ b = 0.
Proof. exact @GradR.norm2d_zero_iff. Qed.

(* solver level, exact arithmetic, no hypothesis on model, spacings, source or nsweep: every gradient vector returned by the 2D solver with the flag is the zero vector or has Euclidean norm 1 (each node is normalised exactly once, in its own iteration of the assembly) *)
Theorem C11_solve2d_gradient_unit_or_zero :
  forall (slow : arr R) (dz dx zsrc xsrc : R) (nsweep : Z) (tt ttgrad : arr R) (vzero : R),
       fteik2d slow dz dx zsrc xsrc nsweep true = Ok (tt, ttgrad, vzero) ->
       forall i j : Z,
       (0 <= i < dim slow 0 + 1)%Z ->
       (0 <= j < dim slow 1 + 1)%Z ->
       let gz := get 0 ttgrad [i; j; 0%Z] in
       let gx := get 0 ttgrad [i; j; 1%Z] in gz = 0 /\ gx = 0 \/ sqrt (gz * gz + gx * gx) = 1.
Proof. exact @GradUnit.fteik2d_gradient_unit_or_zero. Qed.

(* 3D *)
Theorem C11_solve3d_gradient_unit_or_zero :
  forall (slow : arr R) (dz dx dy zsrc xsrc ysrc : R) (nsweep : Z) (tt ttgrad : arr R) (vzero : R),
       fteik3d slow dz dx dy zsrc xsrc ysrc nsweep true = Ok (tt, ttgrad, vzero) ->
       forall i j k : Z,
       (0 <= i < dim slow 0 + 1)%Z ->
       (0 <= j < dim slow 1 + 1)%Z ->
       (0 <= k < dim slow 2 + 1)%Z ->
       let gz := get 0 ttgrad [i; j; k; 0%Z] in
       let gx := get 0 ttgrad [i; j; k; 1%Z] in
       let gy := get 0 ttgrad [i; j; k; 2%Z] in gz = 0 /\ gx = 0 /\ gy = 0 \/ sqrt (gz * gz + gx * gx + gy * gy) = 1.
Proof. exact @GradUnit.fteik3d_gradient_unit_or_zero. Qed.

(* the entries read above are slots of the returned array: shape [nz+1; nx+1; 2] *)
Theorem C11_solve2d_gradient_shape :
  forall (slow : arr R) (dz dx zsrc xsrc : R) (nsweep : Z) (tt ttgrad : arr R) (vzero : R),
       (0 <= dim slow 0 + 1)%Z ->
       (0 <= dim slow 1 + 1)%Z ->
       fteik2d slow dz dx zsrc xsrc nsweep true = Ok (tt, ttgrad, vzero) ->
       wf ttgrad /\ shape ttgrad = [(dim slow 0 + 1)%Z; (dim slow 1 + 1)%Z; 2%Z].
Proof. exact @GradUnit.fteik2d_gradient_shape. Qed.

(* without the flag the gradient output is the empty [0;0;0] array (every numeric instance) *)
Theorem C11_solve2d_gradient_empty_without_flag :
  forall (T : Type) (H : Num T) (slow : arr T) (dz dx zsrc xsrc : T) (nsweep : Z) (tt ttgrad : arr T) (vzero : T),
       fteik2d slow dz dx zsrc xsrc nsweep false = Ok (tt, ttgrad, vzero) ->
       shape ttgrad = [0%Z; 0%Z; 0%Z] /\ dat ttgrad = [].
Proof. exact @GradUnit.fteik2d_gradient_empty_without_flag. Qed.

Print Assumptions C11_sweep_tt_independent_of_grad.
Print Assumptions C11_sweep2d_tt_independent_of_grad.
Print Assumptions C11_sweep3d_tt_independent_of_grad.
Print Assumptions C11_solve2d_tt_independent_of_grad.
Print Assumptions C11_solve3d_tt_independent_of_grad.
Print Assumptions C11_normalised_has_unit_norm_2d.
Print Assumptions C11_normalised_has_unit_norm_3d.
Print Assumptions C11_norm_zero_only_for_zero_vector.
Print Assumptions C11_solve2d_gradient_unit_or_zero.
Print Assumptions C11_solve3d_gradient_unit_or_zero.
Print Assumptions C11_solve2d_gradient_shape.
Print Assumptions C11_solve2d_gradient_empty_without_flag.
