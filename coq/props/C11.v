(* C11  Gradient field: unit vectors that do not perturb the traveltimes (model: gen/Fteik2d.v, gen/Fteik3d.v, gen/Common.v)
   Only statements and `exact`: the proofs are in proofs/.  Written by tools/mkprops.py from Coq's own printing of the
   lemma statements; every statement is in full below so that it cannot be weakened without this file changing. *)
From Coq Require Import ZArith List Bool Reals Lia Lra.
From FT.lib Require Import Num Arr ArrLemmas Lower NumArr.
From FT.gen Require Import Common Interp2d Interp3d Vinterp2d Vinterp3d FteikCommon Fteik2d Fteik3d Ray2d Ray3d.
From FT.proofs Require Import Sweep2dProofs Sweep3dProofs GradR Solve2dProofs Solve3dProofs.
From FT.proofs Require GradUnit GradSign GradSign3d ApiGenEq.
Import ListNotations.
Open Scope R_scope.

(* one node update: the traveltime written does not depend on the gradient flag nor on the sign array (every numeric instance: bit for bit) *)
Theorem C11_sweep_tt_independent_of_grad :
  forall (T : Type) (H : Num T) (tt : arr T) (ttsgn ttsgn' : arr Z) (slow : arr T) (dargs : T * T * T * T * T * T)
         (zsi xsi zsa xsa vzero : T) (i j sgnvz sgnvx sgntz sgntx nz nx : Z) (grad grad' : bool),
       fst (Fteik2d.sweep tt ttsgn slow dargs zsi xsi zsa xsa vzero i j sgnvz sgnvx sgntz sgntx nz nx grad) =
       fst (Fteik2d.sweep tt ttsgn' slow dargs zsi xsi zsa xsa vzero i j sgnvz sgnvx sgntz sgntx nz nx grad').
Proof. exact @Sweep2dProofs.sweep_tt_indep. Qed.

(* a whole 2D pass *)
Theorem C11_sweep2d_tt_independent_of_grad :
  forall (T : Type) (H : Num T) (nz nx : Z) (tt : arr T) (ttsgn ttsgn' : arr Z) (slow : arr T)
         (dz dx zsi xsi zsa xsa vzero : T) (grad grad' : bool),
       fst (sweep2d tt ttsgn slow dz dx zsi xsi zsa xsa vzero nz nx grad) =
       fst (sweep2d tt ttsgn' slow dz dx zsi xsi zsa xsa vzero nz nx grad').
Proof. exact @Sweep2dProofs.sweep2d_tt_indep. Qed.

(* a whole 3D pass *)
Theorem C11_sweep3d_tt_independent_of_grad :
  forall (T : Type) (H : Num T) (nz nx ny : Z) (tt : arr T) (ttsgn ttsgn' : arr Z) (slow : arr T) 
         (dz dx dy : T) (grad grad' : bool),
       fst (sweep3d tt ttsgn slow dz dx dy nz nx ny grad) = fst (sweep3d tt ttsgn' slow dz dx dy nz nx ny grad').
Proof. exact @Sweep3dProofs.sweep3d_tt_indep. Qed.

(* the whole 2D solver (source initialisation, sweeps, assembly): traveltime grid and source-cell slowness with return_gradient=True equal those without, in the source semantics (the compiled 3D build deviates by a few ulp: known finding F6) *)
Theorem C11_solve2d_tt_independent_of_grad :
  forall (T : Type) (H : Num T) (slow : arr T) (dz dx zsrc xsrc : T) (nsweep : Z),
       match fteik2d slow dz dx zsrc xsrc nsweep true with
       | Ok (t1, _, v1) =>
           match fteik2d slow dz dx zsrc xsrc nsweep false with
           | Ok (t2, _, v2) => t1 = t2 /\ v1 = v2
           | _ => False
           end
       | Raise e1 => match fteik2d slow dz dx zsrc xsrc nsweep false with
                     | Raise e2 => e1 = e2
                     | _ => False
                     end
       | OutOfFuel => False
       end.
Proof. exact @Solve2dProofs.fteik2d_tt_indep_of_grad. Qed.

(* the whole 3D solver *)
Theorem C11_solve3d_tt_independent_of_grad :
  forall (T : Type) (H : Num T) (slow : arr T) (dz dx dy zsrc xsrc ysrc : T) (nsweep : Z),
       match fteik3d slow dz dx dy zsrc xsrc ysrc nsweep true with
       | Ok (t1, _, v1) =>
           match fteik3d slow dz dx dy zsrc xsrc ysrc nsweep false with
           | Ok (t2, _, v2) => t1 = t2 /\ v1 = v2
           | _ => False
           end
       | Raise e1 =>
           match fteik3d slow dz dx dy zsrc xsrc ysrc nsweep false with
           | Raise e2 => e1 = e2
           | _ => False
           end
       | OutOfFuel => False
       end.
Proof. exact @Solve3dProofs.fteik3d_tt_indep_of_grad. Qed.

(* exact arithmetic: g / |g| has norm 1 (the assembly divides when |g| > 0) *)
Theorem C11_normalised_has_unit_norm_2d :
  forall a b : R, 0 < norm2d a b -> norm2d (a / norm2d a b) (b / norm2d a b) = 1.
Proof. exact @GradR.norm2d_normalised. Qed.

(* 3D *)
Theorem C11_normalised_has_unit_norm_3d :
  forall a b c : R, 0 < norm3d a b c -> norm3d (a / norm3d a b c) (b / norm3d a b c) (c / norm3d a b c) = 1.
Proof. exact @GradR.norm3d_normalised. Qed.

(* the test |g| > 0 fails only for the zero vector *)
Theorem C11_norm_zero_only_for_zero_vector :
  forall a b : R, norm2d a b = 0 <-> a = 0 /\ b = 0.
Proof. exact @GradR.norm2d_zero_iff. Qed.

(* solver level, exact arithmetic, no hypothesis on model, spacings, source or nsweep: every gradient vector returned by the 2D solver with the flag is the zero vector or has Euclidean norm 1 (each node is normalised exactly once, in its own iteration of the assembly) *)
Theorem C11_solve2d_gradient_unit_or_zero :
  forall (slow : arr R) (dz dx zsrc xsrc : R) (nsweep : Z) (tt ttgrad : arr R) (vzero : R),
       fteik2d slow dz dx zsrc xsrc nsweep true = Ok (tt, ttgrad, vzero) ->
       forall i j : Z,
       (0 <= i < dim slow 0 + 1)%Z ->
       (0 <= j < dim slow 1 + 1)%Z ->
       let gz := get 0 ttgrad [i; j; 0%Z] in
       let gx := get 0 ttgrad [i; j; 1%Z] in gz = 0 /\ gx = 0 \/ sqrt (gz * gz + gx * gx) = 1.
Proof. exact @GradUnit.fteik2d_gradient_unit_or_zero. Qed.

(* 3D *)
Theorem C11_solve3d_gradient_unit_or_zero :
  forall (slow : arr R) (dz dx dy zsrc xsrc ysrc : R) (nsweep : Z) (tt ttgrad : arr R) (vzero : R),
       fteik3d slow dz dx dy zsrc xsrc ysrc nsweep true = Ok (tt, ttgrad, vzero) ->
       forall i j k : Z,
       (0 <= i < dim slow 0 + 1)%Z ->
       (0 <= j < dim slow 1 + 1)%Z ->
       (0 <= k < dim slow 2 + 1)%Z ->
       let gz := get 0 ttgrad [i; j; k; 0%Z] in
       let gx := get 0 ttgrad [i; j; k; 1%Z] in
       let gy := get 0 ttgrad [i; j; k; 2%Z] in gz = 0 /\ gx = 0 /\ gy = 0 \/ sqrt (gz * gz + gx * gx + gy * gy) = 1.
Proof. exact @GradUnit.fteik3d_gradient_unit_or_zero. Qed.

(* the entries read above are slots of the returned array: shape [nz+1; nx+1; 2] *)
Theorem C11_solve2d_gradient_shape :
  forall (slow : arr R) (dz dx zsrc xsrc : R) (nsweep : Z) (tt ttgrad : arr R) (vzero : R),
       (0 <= dim slow 0 + 1)%Z ->
       (0 <= dim slow 1 + 1)%Z ->
       fteik2d slow dz dx zsrc xsrc nsweep true = Ok (tt, ttgrad, vzero) ->
       wf ttgrad /\ shape ttgrad = [(dim slow 0 + 1)%Z; (dim slow 1 + 1)%Z; 2%Z].
Proof. exact @GradUnit.fteik2d_gradient_shape. Qed.

(* without the flag the gradient output is the empty [0;0;0] array (every numeric instance) *)
Theorem C11_solve2d_gradient_empty_without_flag :
  forall (T : Type) (H : Num T) (slow : arr T) (dz dx zsrc xsrc : T) (nsweep : Z) (tt ttgrad : arr T) (vzero : T),
       fteik2d slow dz dx zsrc xsrc nsweep false = Ok (tt, ttgrad, vzero) ->
       shape ttgrad = [0%Z; 0%Z; 0%Z] /\ dat ttgrad = [].
Proof. exact @GradUnit.fteik2d_gradient_empty_without_flag. Qed.

(* exact arithmetic, whole 2D solver: every returned gradient vector is (rz, rx) / |(rz, rx)| where rz = s * (tt[i,j] - tt[i-s,j]) / dz for the recorded direction s = +-1 (the backward difference quotient of the RETURNED traveltime grid for s = +1, the forward one for s = -1), or the initialisation seed when s = 0; same for x; components in the order (Z, X) *)
Theorem C11_gradient_is_normalised_one_sided_difference_2d :
  forall (slow : arr R) (dz dx zsrc xsrc : R) (nsweep : Z) (tt ttgrad : arr R) (vzero : R),
       fteik2d slow dz dx zsrc xsrc nsweep true = Ok (tt, ttgrad, vzero) ->
       let sg := snd (GradSign.final_state slow dz dx zsrc xsrc nsweep) in
       let G0 := i_ttgrad slow dz dx zsrc xsrc true in
       tt = fst (GradSign.final_state slow dz dx zsrc xsrc nsweep) /\
       (forall i j : Z,
        (0 <= i < dim slow 0 + 1)%Z ->
        (0 <= j < dim slow 1 + 1)%Z ->
        let rz := GradSign.raw_z tt sg dz G0 i j in
        let rx := GradSign.raw_x tt sg dx G0 i j in
        get 0 ttgrad [i; j; 0%Z] = GradSign.normed rz rx rz /\ get 0 ttgrad [i; j; 1%Z] = GradSign.normed rz rx rx).
Proof. exact @GradSign.fteik2d_gradient_assembly. Qed.

(* hence each component's sign is the sign of that one-sided difference of the returned grid: c * s >= 0 iff the neighbour i - s is not later than the node, c * s < 0 iff it is later - the component points towards increasing traveltime of the grid it is returned with *)
Theorem C11_gradient_component_sign_follows_grid_difference_2d :
  forall (slow : arr R) (dz dx zsrc xsrc : R) (nsweep : Z) (tt ttgrad : arr R) (vzero : R),
       0 < dz ->
       0 < dx ->
       fteik2d slow dz dx zsrc xsrc nsweep true = Ok (tt, ttgrad, vzero) ->
       let sg := snd (GradSign.final_state slow dz dx zsrc xsrc nsweep) in
       forall i j : Z,
       (0 <= i < dim slow 0 + 1)%Z ->
       (0 <= j < dim slow 1 + 1)%Z ->
       (let s := get 0%Z sg [i; j; 0%Z] in
        let c := get 0 ttgrad [i; j; 0%Z] in
        s <> 0%Z ->
        (0 <= c * IZR s <-> get 0 tt [(i - s)%Z; j] <= get 0 tt [i; j]) /\
        (c * IZR s < 0 <-> get 0 tt [i; j] < get 0 tt [(i - s)%Z; j])) /\
       (let s := get 0%Z sg [i; j; 1%Z] in
        let c := get 0 ttgrad [i; j; 1%Z] in
        s <> 0%Z ->
        (0 <= c * IZR s <-> get 0 tt [i; (j - s)%Z] <= get 0 tt [i; j]) /\
        (c * IZR s < 0 <-> get 0 tt [i; j] < get 0 tt [i; (j - s)%Z])).
Proof. exact @GradSign.fteik2d_gradient_sign_iff. Qed.

(* observation (not a clause of the property): the recorded direction s is NOT always the upwind one - homogeneous 1 x 2 cells, source (1/4, 1/2): node (0,2) is initialised from the virtual row through the source and keeps s = -1 pointing to the LATER node (1,2), for every nsweep; the component is then the forward difference (+0.16, analytic -0.16, 1.5 cells from the source: inside the two-cell zone the property excludes) *)
Theorem C11_recorded_direction_not_always_upwind :
  forall nsweep : Z,
       exists (tt G : arr R) (v : R),
         fteik2d GradSign.w2_slow 1 1 (1 / 4) (1 / 2) nsweep true = Ok (tt, G, v) /\
         get 0%Z (snd (GradSign.final_state GradSign.w2_slow 1 1 (1 / 4) (1 / 2) nsweep)) [0%Z; 2%Z; 0%Z] = (-1)%Z /\
         get 0 tt [0%Z; 2%Z] = Fteik2d.t_ana 0 2 1 1 (1 / 4) (1 / 2) 1 /\
         get 0 tt [1%Z; 2%Z] = Fteik2d.t_ana 1 2 1 1 (1 / 4) (1 / 2) 1 /\
         get 0 tt [0%Z; 2%Z] < get 0 tt [1%Z; 2%Z] /\
         0 < get 0 G [0%Z; 2%Z; 0%Z] /\
         get 0 G [0%Z; 2%Z; 0%Z] *
         IZR (get 0%Z (snd (GradSign.final_state GradSign.w2_slow 1 1 (1 / 4) (1 / 2) nsweep)) [0%Z; 2%Z; 0%Z]) < 0.
Proof. exact @GradSign.fteik2d_gradient_wrong_sign. Qed.

(* API layer, extracted from _grid.py on every run: `.gradient` raises ValueError when no gradient was computed, otherwise returns Grid2D objects built from components 0, 1 of the stored array in that order (Z, X), on the same spacing and origin *)
Theorem C11_gradient_grids_component_order_2d :
  ApiGen.gradient_2d_guard =
       (String.String (Ascii.Ascii true true false false true true true false)
          (String.String (Ascii.Ascii true false true false false true true false)
             (String.String (Ascii.Ascii false false true true false true true false)
                (String.String (Ascii.Ascii false true true false false true true false)
                   (String.String (Ascii.Ascii false true true true false true false false)
                      (String.String (Ascii.Ascii true true true true true false true false)
                         (String.String (Ascii.Ascii true true true false false true true false)
                            (String.String (Ascii.Ascii false true false false true true true false)
                               (String.String (Ascii.Ascii true false false false false true true false)
                                  (String.String (Ascii.Ascii false false true false false true true false)
                                     (String.String (Ascii.Ascii true false false true false true true false)
                                        (String.String (Ascii.Ascii true false true false false true true false)
                                           (String.String (Ascii.Ascii false true true true false true true false)
                                              (String.String (Ascii.Ascii false false true false true true true false)
                                                 (String.String
                                                    (Ascii.Ascii false false false false false true false false)
                                                    (String.String
                                                       (Ascii.Ascii true false false true false true true false)
                                                       (String.String
                                                          (Ascii.Ascii true true false false true true true false)
                                                          (String.String
                                                             (Ascii.Ascii false false false false false true false
                                                                false)
                                                             (String.String
                                                                (Ascii.Ascii false true true true false false true
                                                                   false)
                                                                (String.String
                                                                   (Ascii.Ascii true true true true false true true
                                                                      false)
                                                                   (String.String
                                                                      (Ascii.Ascii false true true true false true true
                                                                         false)
                                                                      (String.String
                                                                         (Ascii.Ascii true false true false false true
                                                                            true false) String.EmptyString))))))))))))))))))))),
        String.String (Ascii.Ascii false true true false true false true false)
          (String.String (Ascii.Ascii true false false false false true true false)
             (String.String (Ascii.Ascii false false true true false true true false)
                (String.String (Ascii.Ascii true false true false true true true false)
                   (String.String (Ascii.Ascii true false true false false true true false)
                      (String.String (Ascii.Ascii true false true false false false true false)
                         (String.String (Ascii.Ascii false true false false true true true false)
                            (String.String (Ascii.Ascii false true false false true true true false)
                               (String.String (Ascii.Ascii true true true true false true true false)
                                  (String.String (Ascii.Ascii false true false false true true true false)
                                     String.EmptyString)))))))))) /\
       ApiGen.gradient_2d_ctor =
       String.String (Ascii.Ascii true true true false false false true false)
         (String.String (Ascii.Ascii false true false false true true true false)
            (String.String (Ascii.Ascii true false false true false true true false)
               (String.String (Ascii.Ascii false false true false false true true false)
                  (String.String (Ascii.Ascii false true false false true true false false)
                     (String.String (Ascii.Ascii false false true false false false true false) String.EmptyString))))) /\
       ApiGen.gradient_2d_index = ApiGen.arange 2 /\
       ApiGen.gradient_2d_axis = (2%Z, 3%Z) /\
       ApiGen.gradient_2d_items =
       [[(String.String (Ascii.Ascii true true true false false true true false)
            (String.String (Ascii.Ascii false true false false true true true false)
               (String.String (Ascii.Ascii true false false true false true true false)
                  (String.String (Ascii.Ascii false false true false false true true false) String.EmptyString))),
          String.String (Ascii.Ascii true true false false true true true false)
            (String.String (Ascii.Ascii true false true false false true true false)
               (String.String (Ascii.Ascii false false true true false true true false)
                  (String.String (Ascii.Ascii false true true false false true true false)
                     (String.String (Ascii.Ascii false true true true false true false false)
                        (String.String (Ascii.Ascii true true true true true false true false)
                           (String.String (Ascii.Ascii true true true false false true true false)
                              (String.String (Ascii.Ascii false true false false true true true false)
                                 (String.String (Ascii.Ascii true false false false false true true false)
                                    (String.String (Ascii.Ascii false false true false false true true false)
                                       (String.String (Ascii.Ascii true false false true false true true false)
                                          (String.String (Ascii.Ascii true false true false false true true false)
                                             (String.String (Ascii.Ascii false true true true false true true false)
                                                (String.String
                                                   (Ascii.Ascii false false true false true true true false)
                                                   (String.String
                                                      (Ascii.Ascii true true false true true false true false)
                                                      (String.String
                                                         (Ascii.Ascii false true false true true true false false)
                                                         (String.String
                                                            (Ascii.Ascii false false true true false true false false)
                                                            (String.String
                                                               (Ascii.Ascii false false false false false true false
                                                                  false)
                                                               (String.String
                                                                  (Ascii.Ascii false true false true true true false
                                                                     false)
                                                                  (String.String
                                                                     (Ascii.Ascii false false true true false true
                                                                        false false)
                                                                     (String.String
                                                                        (Ascii.Ascii false false false false false true
                                                                           false false)
                                                                        (String.String
                                                                           (Ascii.Ascii false false false false true
                                                                              true false false)
                                                                           (String.String
                                                                              (Ascii.Ascii true false true true true
                                                                                 false true false) String.EmptyString)))))))))))))))))))))));
         (String.String (Ascii.Ascii true true true false false true true false)
            (String.String (Ascii.Ascii false true false false true true true false)
               (String.String (Ascii.Ascii true false false true false true true false)
                  (String.String (Ascii.Ascii false false true false false true true false)
                     (String.String (Ascii.Ascii true true false false true true true false)
                        (String.String (Ascii.Ascii true false false true false true true false)
                           (String.String (Ascii.Ascii false true false true true true true false)
                              (String.String (Ascii.Ascii true false true false false true true false)
                                 String.EmptyString))))))),
          String.String (Ascii.Ascii true true false false true true true false)
            (String.String (Ascii.Ascii true false true false false true true false)
               (String.String (Ascii.Ascii false false true true false true true false)
                  (String.String (Ascii.Ascii false true true false false true true false)
                     (String.String (Ascii.Ascii false true true true false true false false)
                        (String.String (Ascii.Ascii true true true true true false true false)
                           (String.String (Ascii.Ascii true true true false false true true false)
                              (String.String (Ascii.Ascii false true false false true true true false)
                                 (String.String (Ascii.Ascii true false false true false true true false)
                                    (String.String (Ascii.Ascii false false true false false true true false)
                                       (String.String (Ascii.Ascii true true false false true true true false)
                                          (String.String (Ascii.Ascii true false false true false true true false)
                                             (String.String (Ascii.Ascii false true false true true true true false)
                                                (String.String
                                                   (Ascii.Ascii true false true false false true true false)
                                                   String.EmptyString))))))))))))));
         (String.String (Ascii.Ascii true true true true false true true false)
            (String.String (Ascii.Ascii false true false false true true true false)
               (String.String (Ascii.Ascii true false false true false true true false)
                  (String.String (Ascii.Ascii true true true false false true true false)
                     (String.String (Ascii.Ascii true false false true false true true false)
                        (String.String (Ascii.Ascii false true true true false true true false) String.EmptyString))))),
          String.String (Ascii.Ascii true true false false true true true false)
            (String.String (Ascii.Ascii true false true false false true true false)
               (String.String (Ascii.Ascii false false true true false true true false)
                  (String.String (Ascii.Ascii false true true false false true true false)
                     (String.String (Ascii.Ascii false true true true false true false false)
                        (String.String (Ascii.Ascii true true true true true false true false)
                           (String.String (Ascii.Ascii true true true true false true true false)
                              (String.String (Ascii.Ascii false true false false true true true false)
                                 (String.String (Ascii.Ascii true false false true false true true false)
                                    (String.String (Ascii.Ascii true true true false false true true false)
                                       (String.String (Ascii.Ascii true false false true false true true false)
                                          (String.String (Ascii.Ascii false true true true false true true false)
                                             String.EmptyString))))))))))))];
        [(String.String (Ascii.Ascii true true true false false true true false)
            (String.String (Ascii.Ascii false true false false true true true false)
               (String.String (Ascii.Ascii true false false true false true true false)
                  (String.String (Ascii.Ascii false false true false false true true false) String.EmptyString))),
          String.String (Ascii.Ascii true true false false true true true false)
            (String.String (Ascii.Ascii true false true false false true true false)
               (String.String (Ascii.Ascii false false true true false true true false)
                  (String.String (Ascii.Ascii false true true false false true true false)
                     (String.String (Ascii.Ascii false true true true false true false false)
                        (String.String (Ascii.Ascii true true true true true false true false)
                           (String.String (Ascii.Ascii true true true false false true true false)
                              (String.String (Ascii.Ascii false true false false true true true false)
                                 (String.String (Ascii.Ascii true false false false false true true false)
                                    (String.String (Ascii.Ascii false false true false false true true false)
                                       (String.String (Ascii.Ascii true false false true false true true false)
                                          (String.String (Ascii.Ascii true false true false false true true false)
                                             (String.String (Ascii.Ascii false true true true false true true false)
                                                (String.String
                                                   (Ascii.Ascii false false true false true true true false)
                                                   (String.String
                                                      (Ascii.Ascii true true false true true false true false)
                                                      (String.String
                                                         (Ascii.Ascii false true false true true true false false)
                                                         (String.String
                                                            (Ascii.Ascii false false true true false true false false)
                                                            (String.String
                                                               (Ascii.Ascii false false false false false true false
                                                                  false)
                                                               (String.String
                                                                  (Ascii.Ascii false true false true true true false
                                                                     false)
                                                                  (String.String
                                                                     (Ascii.Ascii false false true true false true
                                                                        false false)
                                                                     (String.String
                                                                        (Ascii.Ascii false false false false false true
                                                                           false false)
                                                                        (String.String
                                                                           (Ascii.Ascii true false false false true
                                                                              true false false)
                                                                           (String.String
                                                                              (Ascii.Ascii true false true true true
                                                                                 false true false) String.EmptyString)))))))))))))))))))))));
         (String.String (Ascii.Ascii true true true false false true true false)
            (String.String (Ascii.Ascii false true false false true true true false)
               (String.String (Ascii.Ascii true false false true false true true false)
                  (String.String (Ascii.Ascii false false true false false true true false)
                     (String.String (Ascii.Ascii true true false false true true true false)
                        (String.String (Ascii.Ascii true false false true false true true false)
                           (String.String (Ascii.Ascii false true false true true true true false)
                              (String.String (Ascii.Ascii true false true false false true true false)
                                 String.EmptyString))))))),
          String.String (Ascii.Ascii true true false false true true true false)
            (String.String (Ascii.Ascii true false true false false true true false)
               (String.String (Ascii.Ascii false false true true false true true false)
                  (String.String (Ascii.Ascii false true true false false true true false)
                     (String.String (Ascii.Ascii false true true true false true false false)
                        (String.String (Ascii.Ascii true true true true true false true false)
                           (String.String (Ascii.Ascii true true true false false true true false)
                              (String.String (Ascii.Ascii false true false false true true true false)
                                 (String.String (Ascii.Ascii true false false true false true true false)
                                    (String.String (Ascii.Ascii false false true false false true true false)
                                       (String.String (Ascii.Ascii true true false false true true true false)
                                          (String.String (Ascii.Ascii true false false true false true true false)
                                             (String.String (Ascii.Ascii false true false true true true true false)
                                                (String.String
                                                   (Ascii.Ascii true false true false false true true false)
                                                   String.EmptyString))))))))))))));
         (String.String (Ascii.Ascii true true true true false true true false)
            (String.String (Ascii.Ascii false true false false true true true false)
               (String.String (Ascii.Ascii true false false true false true true false)
                  (String.String (Ascii.Ascii true true true false false true true false)
                     (String.String (Ascii.Ascii true false false true false true true false)
                        (String.String (Ascii.Ascii false true true true false true true false) String.EmptyString))))),
          String.String (Ascii.Ascii true true false false true true true false)
            (String.String (Ascii.Ascii true false true false false true true false)
               (String.String (Ascii.Ascii false false true true false true true false)
                  (String.String (Ascii.Ascii false true true false false true true false)
                     (String.String (Ascii.Ascii false true true true false true false false)
                        (String.String (Ascii.Ascii true true true true true false true false)
                           (String.String (Ascii.Ascii true true true true false true true false)
                              (String.String (Ascii.Ascii false true false false true true true false)
                                 (String.String (Ascii.Ascii true false false true false true true false)
                                    (String.String (Ascii.Ascii true true true false false true true false)
                                       (String.String (Ascii.Ascii true false false true false true true false)
                                          (String.String (Ascii.Ascii false true true true false true true false)
                                             String.EmptyString))))))))))))]] /\
       ApiGen.grid_2d_init =
       (String.String (Ascii.Ascii false false false true false true false false)
          (String.String (Ascii.Ascii true true false false true true true false)
             (String.String (Ascii.Ascii true false true false false true true false)
                (String.String (Ascii.Ascii false false true true false true true false)
                   (String.String (Ascii.Ascii false true true false false true true false)
                      (String.String (Ascii.Ascii false false true true false true false false)
                         (String.String (Ascii.Ascii false false false false false true false false)
                            (String.String (Ascii.Ascii false true false true false true false false)
                               (String.String (Ascii.Ascii true false false false false true true false)
                                  (String.String (Ascii.Ascii false true false false true true true false)
                                     (String.String (Ascii.Ascii true true true false false true true false)
                                        (String.String (Ascii.Ascii true true false false true true true false)
                                           (String.String (Ascii.Ascii false false true true false true false false)
                                              (String.String
                                                 (Ascii.Ascii false false false false false true false false)
                                                 (String.String
                                                    (Ascii.Ascii false true false true false true false false)
                                                    (String.String
                                                       (Ascii.Ascii false true false true false true false false)
                                                       (String.String
                                                          (Ascii.Ascii true true false true false true true false)
                                                          (String.String
                                                             (Ascii.Ascii true true true false true true true false)
                                                             (String.String
                                                                (Ascii.Ascii true false false false false true true
                                                                   false)
                                                                (String.String
                                                                   (Ascii.Ascii false true false false true true true
                                                                      false)
                                                                   (String.String
                                                                      (Ascii.Ascii true true true false false true true
                                                                         false)
                                                                      (String.String
                                                                         (Ascii.Ascii true true false false true true
                                                                            true false)
                                                                         (String.String
                                                                            (Ascii.Ascii true false false true false
                                                                               true false false) String.EmptyString)))))))))))))))))))))),
        String.String (Ascii.Ascii true true false false true true true false)
          (String.String (Ascii.Ascii true false true false true true true false)
             (String.String (Ascii.Ascii false false false false true true true false)
                (String.String (Ascii.Ascii true false true false false true true false)
                   (String.String (Ascii.Ascii false true false false true true true false)
                      (String.String (Ascii.Ascii false false false true false true false false)
                         (String.String (Ascii.Ascii true false false true false true false false)
                            (String.String (Ascii.Ascii false true true true false true false false)
                               (String.String (Ascii.Ascii true true true true true false true false)
                                  (String.String (Ascii.Ascii true true true true true false true false)
                                     (String.String (Ascii.Ascii true false false true false true true false)
                                        (String.String (Ascii.Ascii false true true true false true true false)
                                           (String.String (Ascii.Ascii true false false true false true true false)
                                              (String.String (Ascii.Ascii false false true false true true true false)
                                                 (String.String (Ascii.Ascii true true true true true false true false)
                                                    (String.String
                                                       (Ascii.Ascii true true true true true false true false)
                                                       (String.String
                                                          (Ascii.Ascii false false false true false true false false)
                                                          (String.String
                                                             (Ascii.Ascii false true false true false true false false)
                                                             (String.String
                                                                (Ascii.Ascii true false false false false true true
                                                                   false)
                                                                (String.String
                                                                   (Ascii.Ascii false true false false true true true
                                                                      false)
                                                                   (String.String
                                                                      (Ascii.Ascii true true true false false true true
                                                                         false)
                                                                      (String.String
                                                                         (Ascii.Ascii true true false false true true
                                                                            true false)
                                                                         (String.String
                                                                            (Ascii.Ascii false false true true false
                                                                               true false false)
                                                                            (String.String
                                                                               (Ascii.Ascii false false false false
                                                                                  false true false false)
                                                                               (String.String
                                                                                  (Ascii.Ascii false true false true
                                                                                     false true false false)
                                                                                  (String.String
                                                                                     (Ascii.Ascii false true false true
                                                                                        false true false false)
                                                                                     (String.String
                                                                                        (Ascii.Ascii true true false
                                                                                          true false true true false)
                                                                                        (String.String
                                                                                          (Ascii.Ascii true true true
                                                                                          false true true true false)
                                                                                          (String.String
                                                                                          (Ascii.Ascii true false false
                                                                                          false false true true false)
                                                                                          (String.String
                                                                                          (Ascii.Ascii false true false
                                                                                          false true true true false)
                                                                                          (String.String
                                                                                          (Ascii.Ascii true true true
                                                                                          false false true true false)
                                                                                          (String.String
                                                                                          (Ascii.Ascii true true false
                                                                                          false true true true false)
                                                                                          (String.String
                                                                                          (Ascii.Ascii true false false
                                                                                          true false true false false)
                                                                                          String.EmptyString))))))))))))))))))))))))))))))))).
Proof. exact @ApiGenEq.gen_gradient_2d. Qed.

(* 3D: components 0, 1, 2 (Z, X, Y) *)
Theorem C11_gradient_grids_component_order_3d :
  ApiGen.gradient_3d_guard =
       (String.String (Ascii.Ascii true true false false true true true false)
          (String.String (Ascii.Ascii true false true false false true true false)
             (String.String (Ascii.Ascii false false true true false true true false)
                (String.String (Ascii.Ascii false true true false false true true false)
                   (String.String (Ascii.Ascii false true true true false true false false)
                      (String.String (Ascii.Ascii true true true true true false true false)
                         (String.String (Ascii.Ascii true true true false false true true false)
                            (String.String (Ascii.Ascii false true false false true true true false)
                               (String.String (Ascii.Ascii true false false false false true true false)
                                  (String.String (Ascii.Ascii false false true false false true true false)
                                     (String.String (Ascii.Ascii true false false true false true true false)
                                        (String.String (Ascii.Ascii true false true false false true true false)
                                           (String.String (Ascii.Ascii false true true true false true true false)
                                              (String.String (Ascii.Ascii false false true false true true true false)
                                                 (String.String
                                                    (Ascii.Ascii false false false false false true false false)
                                                    (String.String
                                                       (Ascii.Ascii true false false true false true true false)
                                                       (String.String
                                                          (Ascii.Ascii true true false false true true true false)
                                                          (String.String
                                                             (Ascii.Ascii false false false false false true false
                                                                false)
                                                             (String.String
                                                                (Ascii.Ascii false true true true false false true
                                                                   false)
                                                                (String.String
                                                                   (Ascii.Ascii true true true true false true true
                                                                      false)
                                                                   (String.String
                                                                      (Ascii.Ascii false true true true false true true
                                                                         false)
                                                                      (String.String
                                                                         (Ascii.Ascii true false true false false true
                                                                            true false) String.EmptyString))))))))))))))))))))),
        String.String (Ascii.Ascii false true true false true false true false)
          (String.String (Ascii.Ascii true false false false false true true false)
             (String.String (Ascii.Ascii false false true true false true true false)
                (String.String (Ascii.Ascii true false true false true true true false)
                   (String.String (Ascii.Ascii true false true false false true true false)
                      (String.String (Ascii.Ascii true false true false false false true false)
                         (String.String (Ascii.Ascii false true false false true true true false)
                            (String.String (Ascii.Ascii false true false false true true true false)
                               (String.String (Ascii.Ascii true true true true false true true false)
                                  (String.String (Ascii.Ascii false true false false true true true false)
                                     String.EmptyString)))))))))) /\
       ApiGen.gradient_3d_ctor =
       String.String (Ascii.Ascii true true true false false false true false)
         (String.String (Ascii.Ascii false true false false true true true false)
            (String.String (Ascii.Ascii true false false true false true true false)
               (String.String (Ascii.Ascii false false true false false true true false)
                  (String.String (Ascii.Ascii true true false false true true false false)
                     (String.String (Ascii.Ascii false false true false false false true false) String.EmptyString))))) /\
       ApiGen.gradient_3d_index = ApiGen.arange 3 /\
       ApiGen.gradient_3d_axis = (3%Z, 4%Z) /\
       ApiGen.gradient_3d_items =
       [[(String.String (Ascii.Ascii true true true false false true true false)
            (String.String (Ascii.Ascii false true false false true true true false)
               (String.String (Ascii.Ascii true false false true false true true false)
                  (String.String (Ascii.Ascii false false true false false true true false) String.EmptyString))),
          String.String (Ascii.Ascii true true false false true true true false)
            (String.String (Ascii.Ascii true false true false false true true false)
               (String.String (Ascii.Ascii false false true true false true true false)
                  (String.String (Ascii.Ascii false true true false false true true false)
                     (String.String (Ascii.Ascii false true true true false true false false)
                        (String.String (Ascii.Ascii true true true true true false true false)
                           (String.String (Ascii.Ascii true true true false false true true false)
                              (String.String (Ascii.Ascii false true false false true true true false)
                                 (String.String (Ascii.Ascii true false false false false true true false)
                                    (String.String (Ascii.Ascii false false true false false true true false)
                                       (String.String (Ascii.Ascii true false false true false true true false)
                                          (String.String (Ascii.Ascii true false true false false true true false)
                                             (String.String (Ascii.Ascii false true true true false true true false)
                                                (String.String
                                                   (Ascii.Ascii false false true false true true true false)
                                                   (String.String
                                                      (Ascii.Ascii true true false true true false true false)
                                                      (String.String
                                                         (Ascii.Ascii false true false true true true false false)
                                                         (String.String
                                                            (Ascii.Ascii false false true true false true false false)
                                                            (String.String
                                                               (Ascii.Ascii false false false false false true false
                                                                  false)
                                                               (String.String
                                                                  (Ascii.Ascii false true false true true true false
                                                                     false)
                                                                  (String.String
                                                                     (Ascii.Ascii false false true true false true
                                                                        false false)
                                                                     (String.String
                                                                        (Ascii.Ascii false false false false false true
                                                                           false false)
                                                                        (String.String
                                                                           (Ascii.Ascii false true false true true true
                                                                              false false)
                                                                           (String.String
                                                                              (Ascii.Ascii false false true true false
                                                                                 true false false)
                                                                              (String.String
                                                                                 (Ascii.Ascii false false false false
                                                                                    false true false false)
                                                                                 (String.String
                                                                                    (Ascii.Ascii false false false
                                                                                       false true true false false)
                                                                                    (String.String
                                                                                       (Ascii.Ascii true false true
                                                                                          true true false true false)
                                                                                       String.EmptyString))))))))))))))))))))))))));
         (String.String (Ascii.Ascii true true true false false true true false)
            (String.String (Ascii.Ascii false true false false true true true false)
               (String.String (Ascii.Ascii true false false true false true true false)
                  (String.String (Ascii.Ascii false false true false false true true false)
                     (String.String (Ascii.Ascii true true false false true true true false)
                        (String.String (Ascii.Ascii true false false true false true true false)
                           (String.String (Ascii.Ascii false true false true true true true false)
                              (String.String (Ascii.Ascii true false true false false true true false)
                                 String.EmptyString))))))),
          String.String (Ascii.Ascii true true false false true true true false)
            (String.String (Ascii.Ascii true false true false false true true false)
               (String.String (Ascii.Ascii false false true true false true true false)
                  (String.String (Ascii.Ascii false true true false false true true false)
                     (String.String (Ascii.Ascii false true true true false true false false)
                        (String.String (Ascii.Ascii true true true true true false true false)
                           (String.String (Ascii.Ascii true true true false false true true false)
                              (String.String (Ascii.Ascii false true false false true true true false)
                                 (String.String (Ascii.Ascii true false false true false true true false)
                                    (String.String (Ascii.Ascii false false true false false true true false)
                                       (String.String (Ascii.Ascii true true false false true true true false)
                                          (String.String (Ascii.Ascii true false false true false true true false)
                                             (String.String (Ascii.Ascii false true false true true true true false)
                                                (String.String
                                                   (Ascii.Ascii true false true false false true true false)
                                                   String.EmptyString))))))))))))));
         (String.String (Ascii.Ascii true true true true false true true false)
            (String.String (Ascii.Ascii false true false false true true true false)
               (String.String (Ascii.Ascii true false false true false true true false)
                  (String.String (Ascii.Ascii true true true false false true true false)
                     (String.String (Ascii.Ascii true false false true false true true false)
                        (String.String (Ascii.Ascii false true true true false true true false) String.EmptyString))))),
          String.String (Ascii.Ascii true true false false true true true false)
            (String.String (Ascii.Ascii true false true false false true true false)
               (String.String (Ascii.Ascii false false true true false true true false)
                  (String.String (Ascii.Ascii false true true false false true true false)
                     (String.String (Ascii.Ascii false true true true false true false false)
                        (String.String (Ascii.Ascii true true true true true false true false)
                           (String.String (Ascii.Ascii true true true true false true true false)
                              (String.String (Ascii.Ascii false true false false true true true false)
                                 (String.String (Ascii.Ascii true false false true false true true false)
                                    (String.String (Ascii.Ascii true true true false false true true false)
                                       (String.String (Ascii.Ascii true false false true false true true false)
                                          (String.String (Ascii.Ascii false true true true false true true false)
                                             String.EmptyString))))))))))))];
        [(String.String (Ascii.Ascii true true true false false true true false)
            (String.String (Ascii.Ascii false true false false true true true false)
               (String.String (Ascii.Ascii true false false true false true true false)
                  (String.String (Ascii.Ascii false false true false false true true false) String.EmptyString))),
          String.String (Ascii.Ascii true true false false true true true false)
            (String.String (Ascii.Ascii true false true false false true true false)
               (String.String (Ascii.Ascii false false true true false true true false)
                  (String.String (Ascii.Ascii false true true false false true true false)
                     (String.String (Ascii.Ascii false true true true false true false false)
                        (String.String (Ascii.Ascii true true true true true false true false)
                           (String.String (Ascii.Ascii true true true false false true true false)
                              (String.String (Ascii.Ascii false true false false true true true false)
                                 (String.String (Ascii.Ascii true false false false false true true false)
                                    (String.String (Ascii.Ascii false false true false false true true false)
                                       (String.String (Ascii.Ascii true false false true false true true false)
                                          (String.String (Ascii.Ascii true false true false false true true false)
                                             (String.String (Ascii.Ascii false true true true false true true false)
                                                (String.String
                                                   (Ascii.Ascii false false true false true true true false)
                                                   (String.String
                                                      (Ascii.Ascii true true false true true false true false)
                                                      (String.String
                                                         (Ascii.Ascii false true false true true true false false)
                                                         (String.String
                                                            (Ascii.Ascii false false true true false true false false)
                                                            (String.String
                                                               (Ascii.Ascii false false false false false true false
                                                                  false)
                                                               (String.String
                                                                  (Ascii.Ascii false true false true true true false
                                                                     false)
                                                                  (String.String
                                                                     (Ascii.Ascii false false true true false true
                                                                        false false)
                                                                     (String.String
                                                                        (Ascii.Ascii false false false false false true
                                                                           false false)
                                                                        (String.String
                                                                           (Ascii.Ascii false true false true true true
                                                                              false false)
                                                                           (String.String
                                                                              (Ascii.Ascii false false true true false
                                                                                 true false false)
                                                                              (String.String
                                                                                 (Ascii.Ascii false false false false
                                                                                    false true false false)
                                                                                 (String.String
                                                                                    (Ascii.Ascii true false false false
                                                                                       true true false false)
                                                                                    (String.String
                                                                                       (Ascii.Ascii true false true
                                                                                          true true false true false)
                                                                                       String.EmptyString))))))))))))))))))))))))));
         (String.String (Ascii.Ascii true true true false false true true false)
            (String.String (Ascii.Ascii false true false false true true true false)
               (String.String (Ascii.Ascii true false false true false true true false)
                  (String.String (Ascii.Ascii false false true false false true true false)
                     (String.String (Ascii.Ascii true true false false true true true false)
                        (String.String (Ascii.Ascii true false false true false true true false)
                           (String.String (Ascii.Ascii false true false true true true true false)
                              (String.String (Ascii.Ascii true false true false false true true false)
                                 String.EmptyString))))))),
          String.String (Ascii.Ascii true true false false true true true false)
            (String.String (Ascii.Ascii true false true false false true true false)
               (String.String (Ascii.Ascii false false true true false true true false)
                  (String.String (Ascii.Ascii false true true false false true true false)
                     (String.String (Ascii.Ascii false true true true false true false false)
                        (String.String (Ascii.Ascii true true true true true false true false)
                           (String.String (Ascii.Ascii true true true false false true true false)
                              (String.String (Ascii.Ascii false true false false true true true false)
                                 (String.String (Ascii.Ascii true false false true false true true false)
                                    (String.String (Ascii.Ascii false false true false false true true false)
                                       (String.String (Ascii.Ascii true true false false true true true false)
                                          (String.String (Ascii.Ascii true false false true false true true false)
                                             (String.String (Ascii.Ascii false true false true true true true false)
                                                (String.String
                                                   (Ascii.Ascii true false true false false true true false)
                                                   String.EmptyString))))))))))))));
         (String.String (Ascii.Ascii true true true true false true true false)
            (String.String (Ascii.Ascii false true false false true true true false)
               (String.String (Ascii.Ascii true false false true false true true false)
                  (String.String (Ascii.Ascii true true true false false true true false)
                     (String.String (Ascii.Ascii true false false true false true true false)
                        (String.String (Ascii.Ascii false true true true false true true false) String.EmptyString))))),
          String.String (Ascii.Ascii true true false false true true true false)
            (String.String (Ascii.Ascii true false true false false true true false)
               (String.String (Ascii.Ascii false false true true false true true false)
                  (String.String (Ascii.Ascii false true true false false true true false)
                     (String.String (Ascii.Ascii false true true true false true false false)
                        (String.String (Ascii.Ascii true true true true true false true false)
                           (String.String (Ascii.Ascii true true true true false true true false)
                              (String.String (Ascii.Ascii false true false false true true true false)
                                 (String.String (Ascii.Ascii true false false true false true true false)
                                    (String.String (Ascii.Ascii true true true false false true true false)
                                       (String.String (Ascii.Ascii true false false true false true true false)
                                          (String.String (Ascii.Ascii false true true true false true true false)
                                             String.EmptyString))))))))))))];
        [(String.String (Ascii.Ascii true true true false false true true false)
            (String.String (Ascii.Ascii false true false false true true true false)
               (String.String (Ascii.Ascii true false false true false true true false)
                  (String.String (Ascii.Ascii false false true false false true true false) String.EmptyString))),
          String.String (Ascii.Ascii true true false false true true true false)
            (String.String (Ascii.Ascii true false true false false true true false)
               (String.String (Ascii.Ascii false false true true false true true false)
                  (String.String (Ascii.Ascii false true true false false true true false)
                     (String.String (Ascii.Ascii false true true true false true false false)
                        (String.String (Ascii.Ascii true true true true true false true false)
                           (String.String (Ascii.Ascii true true true false false true true false)
                              (String.String (Ascii.Ascii false true false false true true true false)
                                 (String.String (Ascii.Ascii true false false false false true true false)
                                    (String.String (Ascii.Ascii false false true false false true true false)
                                       (String.String (Ascii.Ascii true false false true false true true false)
                                          (String.String (Ascii.Ascii true false true false false true true false)
                                             (String.String (Ascii.Ascii false true true true false true true false)
                                                (String.String
                                                   (Ascii.Ascii false false true false true true true false)
                                                   (String.String
                                                      (Ascii.Ascii true true false true true false true false)
                                                      (String.String
                                                         (Ascii.Ascii false true false true true true false false)
                                                         (String.String
                                                            (Ascii.Ascii false false true true false true false false)
                                                            (String.String
                                                               (Ascii.Ascii false false false false false true false
                                                                  false)
                                                               (String.String
                                                                  (Ascii.Ascii false true false true true true false
                                                                     false)
                                                                  (String.String
                                                                     (Ascii.Ascii false false true true false true
                                                                        false false)
                                                                     (String.String
                                                                        (Ascii.Ascii false false false false false true
                                                                           false false)
                                                                        (String.String
                                                                           (Ascii.Ascii false true false true true true
                                                                              false false)
                                                                           (String.String
                                                                              (Ascii.Ascii false false true true false
                                                                                 true false false)
                                                                              (String.String
                                                                                 (Ascii.Ascii false false false false
                                                                                    false true false false)
                                                                                 (String.String
                                                                                    (Ascii.Ascii false true false false
                                                                                       true true false false)
                                                                                    (String.String
                                                                                       (Ascii.Ascii true false true
                                                                                          true true false true false)
                                                                                       String.EmptyString))))))))))))))))))))))))));
         (String.String (Ascii.Ascii true true true false false true true false)
            (String.String (Ascii.Ascii false true false false true true true false)
               (String.String (Ascii.Ascii true false false true false true true false)
                  (String.String (Ascii.Ascii false false true false false true true false)
                     (String.String (Ascii.Ascii true true false false true true true false)
                        (String.String (Ascii.Ascii true false false true false true true false)
                           (String.String (Ascii.Ascii false true false true true true true false)
                              (String.String (Ascii.Ascii true false true false false true true false)
                                 String.EmptyString))))))),
          String.String (Ascii.Ascii true true false false true true true false)
            (String.String (Ascii.Ascii true false true false false true true false)
               (String.String (Ascii.Ascii false false true true false true true false)
                  (String.String (Ascii.Ascii false true true false false true true false)
                     (String.String (Ascii.Ascii false true true true false true false false)
                        (String.String (Ascii.Ascii true true true true true false true false)
                           (String.String (Ascii.Ascii true true true false false true true false)
                              (String.String (Ascii.Ascii false true false false true true true false)
                                 (String.String (Ascii.Ascii true false false true false true true false)
                                    (String.String (Ascii.Ascii false false true false false true true false)
                                       (String.String (Ascii.Ascii true true false false true true true false)
                                          (String.String (Ascii.Ascii true false false true false true true false)
                                             (String.String (Ascii.Ascii false true false true true true true false)
                                                (String.String
                                                   (Ascii.Ascii true false true false false true true false)
                                                   String.EmptyString))))))))))))));
         (String.String (Ascii.Ascii true true true true false true true false)
            (String.String (Ascii.Ascii false true false false true true true false)
               (String.String (Ascii.Ascii true false false true false true true false)
                  (String.String (Ascii.Ascii true true true false false true true false)
                     (String.String (Ascii.Ascii true false false true false true true false)
                        (String.String (Ascii.Ascii false true true true false true true false) String.EmptyString))))),
          String.String (Ascii.Ascii true true false false true true true false)
            (String.String (Ascii.Ascii true false true false false true true false)
               (String.String (Ascii.Ascii false false true true false true true false)
                  (String.String (Ascii.Ascii false true true false false true true false)
                     (String.String (Ascii.Ascii false true true true false true false false)
                        (String.String (Ascii.Ascii true true true true true false true false)
                           (String.String (Ascii.Ascii true true true true false true true false)
                              (String.String (Ascii.Ascii false true false false true true true false)
                                 (String.String (Ascii.Ascii true false false true false true true false)
                                    (String.String (Ascii.Ascii true true true false false true true false)
                                       (String.String (Ascii.Ascii true false false true false true true false)
                                          (String.String (Ascii.Ascii false true true true false true true false)
                                             String.EmptyString))))))))))))]] /\
       ApiGen.grid_3d_init =
       (String.String (Ascii.Ascii false false false true false true false false)
          (String.String (Ascii.Ascii true true false false true true true false)
             (String.String (Ascii.Ascii true false true false false true true false)
                (String.String (Ascii.Ascii false false true true false true true false)
                   (String.String (Ascii.Ascii false true true false false true true false)
                      (String.String (Ascii.Ascii false false true true false true false false)
                         (String.String (Ascii.Ascii false false false false false true false false)
                            (String.String (Ascii.Ascii false true false true false true false false)
                               (String.String (Ascii.Ascii true false false false false true true false)
                                  (String.String (Ascii.Ascii false true false false true true true false)
                                     (String.String (Ascii.Ascii true true true false false true true false)
                                        (String.String (Ascii.Ascii true true false false true true true false)
                                           (String.String (Ascii.Ascii false false true true false true false false)
                                              (String.String
                                                 (Ascii.Ascii false false false false false true false false)
                                                 (String.String
                                                    (Ascii.Ascii false true false true false true false false)
                                                    (String.String
                                                       (Ascii.Ascii false true false true false true false false)
                                                       (String.String
                                                          (Ascii.Ascii true true false true false true true false)
                                                          (String.String
                                                             (Ascii.Ascii true true true false true true true false)
                                                             (String.String
                                                                (Ascii.Ascii true false false false false true true
                                                                   false)
                                                                (String.String
                                                                   (Ascii.Ascii false true false false true true true
                                                                      false)
                                                                   (String.String
                                                                      (Ascii.Ascii true true true false false true true
                                                                         false)
                                                                      (String.String
                                                                         (Ascii.Ascii true true false false true true
                                                                            true false)
                                                                         (String.String
                                                                            (Ascii.Ascii true false false true false
                                                                               true false false) String.EmptyString)))))))))))))))))))))),
        String.String (Ascii.Ascii true true false false true true true false)
          (String.String (Ascii.Ascii true false true false true true true false)
             (String.String (Ascii.Ascii false false false false true true true false)
                (String.String (Ascii.Ascii true false true false false true true false)
                   (String.String (Ascii.Ascii false true false false true true true false)
                      (String.String (Ascii.Ascii false false false true false true false false)
                         (String.String (Ascii.Ascii true false false true false true false false)
                            (String.String (Ascii.Ascii false true true true false true false false)
                               (String.String (Ascii.Ascii true true true true true false true false)
                                  (String.String (Ascii.Ascii true true true true true false true false)
                                     (String.String (Ascii.Ascii true false false true false true true false)
                                        (String.String (Ascii.Ascii false true true true false true true false)
                                           (String.String (Ascii.Ascii true false false true false true true false)
                                              (String.String (Ascii.Ascii false false true false true true true false)
                                                 (String.String (Ascii.Ascii true true true true true false true false)
                                                    (String.String
                                                       (Ascii.Ascii true true true true true false true false)
                                                       (String.String
                                                          (Ascii.Ascii false false false true false true false false)
                                                          (String.String
                                                             (Ascii.Ascii false true false true false true false false)
                                                             (String.String
                                                                (Ascii.Ascii true false false false false true true
                                                                   false)
                                                                (String.String
                                                                   (Ascii.Ascii false true false false true true true
                                                                      false)
                                                                   (String.String
                                                                      (Ascii.Ascii true true true false false true true
                                                                         false)
                                                                      (String.String
                                                                         (Ascii.Ascii true true false false true true
                                                                            true false)
                                                                         (String.String
                                                                            (Ascii.Ascii false false true true false
                                                                               true false false)
                                                                            (String.String
                                                                               (Ascii.Ascii false false false false
                                                                                  false true false false)
                                                                               (String.String
                                                                                  (Ascii.Ascii false true false true
                                                                                     false true false false)
                                                                                  (String.String
                                                                                     (Ascii.Ascii false true false true
                                                                                        false true false false)
                                                                                     (String.String
                                                                                        (Ascii.Ascii true true false
                                                                                          true false true true false)
                                                                                        (String.String
                                                                                          (Ascii.Ascii true true true
                                                                                          false true true true false)
                                                                                          (String.String
                                                                                          (Ascii.Ascii true false false
                                                                                          false false true true false)
                                                                                          (String.String
                                                                                          (Ascii.Ascii false true false
                                                                                          false true true true false)
                                                                                          (String.String
                                                                                          (Ascii.Ascii true true true
                                                                                          false false true true false)
                                                                                          (String.String
                                                                                          (Ascii.Ascii true true false
                                                                                          false true true true false)
                                                                                          (String.String
                                                                                          (Ascii.Ascii true false false
                                                                                          true false true false false)
                                                                                          String.EmptyString))))))))))))))))))))))))))))))))).
Proof. exact @ApiGenEq.gen_gradient_3d. Qed.

(* every gradient grid receives the traveltime grid's own spacing and origin *)
Theorem C11_gradient_grids_same_spacing_origin :
  Forall
         (fun it : list (String.string * String.string) =>
          tl it =
          [(String.String (Ascii.Ascii true true true false false true true false)
              (String.String (Ascii.Ascii false true false false true true true false)
                 (String.String (Ascii.Ascii true false false true false true true false)
                    (String.String (Ascii.Ascii false false true false false true true false)
                       (String.String (Ascii.Ascii true true false false true true true false)
                          (String.String (Ascii.Ascii true false false true false true true false)
                             (String.String (Ascii.Ascii false true false true true true true false)
                                (String.String (Ascii.Ascii true false true false false true true false)
                                   String.EmptyString))))))),
            String.String (Ascii.Ascii true true false false true true true false)
              (String.String (Ascii.Ascii true false true false false true true false)
                 (String.String (Ascii.Ascii false false true true false true true false)
                    (String.String (Ascii.Ascii false true true false false true true false)
                       (String.String (Ascii.Ascii false true true true false true false false)
                          (String.String (Ascii.Ascii true true true true true false true false)
                             (String.String (Ascii.Ascii true true true false false true true false)
                                (String.String (Ascii.Ascii false true false false true true true false)
                                   (String.String (Ascii.Ascii true false false true false true true false)
                                      (String.String (Ascii.Ascii false false true false false true true false)
                                         (String.String (Ascii.Ascii true true false false true true true false)
                                            (String.String (Ascii.Ascii true false false true false true true false)
                                               (String.String (Ascii.Ascii false true false true true true true false)
                                                  (String.String
                                                     (Ascii.Ascii true false true false false true true false)
                                                     String.EmptyString))))))))))))));
           (String.String (Ascii.Ascii true true true true false true true false)
              (String.String (Ascii.Ascii false true false false true true true false)
                 (String.String (Ascii.Ascii true false false true false true true false)
                    (String.String (Ascii.Ascii true true true false false true true false)
                       (String.String (Ascii.Ascii true false false true false true true false)
                          (String.String (Ascii.Ascii false true true true false true true false) String.EmptyString))))),
            String.String (Ascii.Ascii true true false false true true true false)
              (String.String (Ascii.Ascii true false true false false true true false)
                 (String.String (Ascii.Ascii false false true true false true true false)
                    (String.String (Ascii.Ascii false true true false false true true false)
                       (String.String (Ascii.Ascii false true true true false true false false)
                          (String.String (Ascii.Ascii true true true true true false true false)
                             (String.String (Ascii.Ascii true true true true false true true false)
                                (String.String (Ascii.Ascii false true false false true true true false)
                                   (String.String (Ascii.Ascii true false false true false true true false)
                                      (String.String (Ascii.Ascii true true true false false true true false)
                                         (String.String (Ascii.Ascii true false false true false true true false)
                                            (String.String (Ascii.Ascii false true true true false true true false)
                                               String.EmptyString))))))))))))])
         (ApiGen.gradient_2d_items ++ ApiGen.gradient_3d_items) /\
       length ApiGen.gradient_2d_items = 2%nat /\ length ApiGen.gradient_3d_items = 3%nat.
Proof. exact @ApiGenEq.gen_gradient_items_meta. Qed.

(* 3D whole solver, exact arithmetic: every returned gradient vector is (rz, rx, ry) / |(rz, rx, ry)| with each r a one-sided difference quotient of the RETURNED traveltime grid towards the recorded direction (the initialisation seed where the direction is 0); components in the order (Z, X, Y) *)
Theorem C11_gradient_is_normalised_one_sided_difference_3d :
  forall (slow : arr R) (dz dx dy zsrc xsrc ysrc : R) (nsweep : Z) (tt ttgrad : arr R) (vzero : R),
       fteik3d slow dz dx dy zsrc xsrc ysrc nsweep true = Ok (tt, ttgrad, vzero) ->
       let sg := snd (GradSign3d.final_state3 slow dz dx dy zsrc xsrc ysrc nsweep) in
       let G0 := GradSign3d.grad0_3d slow dz dx dy zsrc xsrc ysrc in
       tt = fst (GradSign3d.final_state3 slow dz dx dy zsrc xsrc ysrc nsweep) /\
       (forall i j k : Z,
        (0 <= i < dim slow 0 + 1)%Z ->
        (0 <= j < dim slow 1 + 1)%Z ->
        (0 <= k < dim slow 2 + 1)%Z ->
        let rz := GradSign3d.raw3_z tt sg dz G0 i j k in
        let rx := GradSign3d.raw3_x tt sg dx G0 i j k in
        let ry := GradSign3d.raw3_y tt sg dy G0 i j k in
        get 0 ttgrad [i; j; k; 0%Z] = GradSign3d.normed3 rz rx ry rz /\
        get 0 ttgrad [i; j; k; 1%Z] = GradSign3d.normed3 rz rx ry rx /\
        get 0 ttgrad [i; j; k; 2%Z] = GradSign3d.normed3 rz rx ry ry).
Proof. exact @GradSign3d.fteik3d_gradient_assembly. Qed.

(* 3D: c * s >= 0 iff the neighbour the direction points to is not later than the node, c * s < 0 iff it is later - for each of the three axes *)
Theorem C11_gradient_component_sign_follows_grid_difference_3d :
  forall (slow : arr R) (dz dx dy zsrc xsrc ysrc : R) (nsweep : Z) (tt ttgrad : arr R) (vzero : R),
       0 < dz ->
       0 < dx ->
       0 < dy ->
       fteik3d slow dz dx dy zsrc xsrc ysrc nsweep true = Ok (tt, ttgrad, vzero) ->
       let sg := snd (GradSign3d.final_state3 slow dz dx dy zsrc xsrc ysrc nsweep) in
       forall i j k : Z,
       (0 <= i < dim slow 0 + 1)%Z ->
       (0 <= j < dim slow 1 + 1)%Z ->
       (0 <= k < dim slow 2 + 1)%Z ->
       (let s := get 0%Z sg [i; j; k; 0%Z] in
        let c := get 0 ttgrad [i; j; k; 0%Z] in
        s <> 0%Z ->
        (0 <= c * IZR s <-> get 0 tt [(i - s)%Z; j; k] <= get 0 tt [i; j; k]) /\
        (c * IZR s < 0 <-> get 0 tt [i; j; k] < get 0 tt [(i - s)%Z; j; k])) /\
       (let s := get 0%Z sg [i; j; k; 1%Z] in
        let c := get 0 ttgrad [i; j; k; 1%Z] in
        s <> 0%Z ->
        (0 <= c * IZR s <-> get 0 tt [i; (j - s)%Z; k] <= get 0 tt [i; j; k]) /\
        (c * IZR s < 0 <-> get 0 tt [i; j; k] < get 0 tt [i; (j - s)%Z; k])) /\
       (let s := get 0%Z sg [i; j; k; 2%Z] in
        let c := get 0 ttgrad [i; j; k; 2%Z] in
        s <> 0%Z ->
        (0 <= c * IZR s <-> get 0 tt [i; j; (k - s)%Z] <= get 0 tt [i; j; k]) /\
        (c * IZR s < 0 <-> get 0 tt [i; j; k] < get 0 tt [i; j; (k - s)%Z])).
Proof. exact @GradSign3d.fteik3d_gradient_sign_iff. Qed.

Print Assumptions C11_sweep_tt_independent_of_grad.
Print Assumptions C11_sweep2d_tt_independent_of_grad.
Print Assumptions C11_sweep3d_tt_independent_of_grad.
Print Assumptions C11_solve2d_tt_independent_of_grad.
Print Assumptions C11_solve3d_tt_independent_of_grad.
Print Assumptions C11_normalised_has_unit_norm_2d.
Print Assumptions C11_normalised_has_unit_norm_3d.
Print Assumptions C11_norm_zero_only_for_zero_vector.
Print Assumptions C11_solve2d_gradient_unit_or_zero.
Print Assumptions C11_solve3d_gradient_unit_or_zero.
Print Assumptions C11_solve2d_gradient_shape.
Print Assumptions C11_solve2d_gradient_empty_without_flag.
Print Assumptions C11_gradient_is_normalised_one_sided_difference_2d.
Print Assumptions C11_gradient_component_sign_follows_grid_difference_2d.
Print Assumptions C11_recorded_direction_not_always_upwind.
Print Assumptions C11_gradient_grids_component_order_2d.
Print Assumptions C11_gradient_grids_component_order_3d.
Print Assumptions C11_gradient_grids_same_spacing_origin.
Print Assumptions C11_gradient_is_normalised_one_sided_difference_3d.
Print Assumptions C11_gradient_component_sign_follows_grid_difference_3d.
