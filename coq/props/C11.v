(* C11  Gradient field: unit vectors that do not perturb the traveltimes.
   Only statements and `exact`; the proofs are in proofs/. *)
From Coq Require Import ZArith List Bool Reals.
From FT.lib Require Import Num Arr ArrLemmas Lower.
From FT.gen Require Import Common Fteik2d Fteik3d.
From FT.proofs Require Import Sweep2dProofs Sweep3dProofs GradR.
Import ListNotations.
Open Scope Z_scope.

(* the traveltime output of a single update does not depend on the gradient flag nor on the sign array
   (source semantics, every numeric instance: bit for bit for binary64) *)
Theorem C11_sweep_tt_independent_of_grad_2d :
  forall (T : Type) (H : Num T) (tt : arr T) (ttsgn ttsgn' : arr Z) (slow : arr T) (dargs : T * T * T * T * T * T)
         (zsi xsi zsa xsa vzero : T) (i j sgnvz sgnvx sgntz sgntx nz nx : Z) (grad grad' : bool),
  fst (Fteik2d.sweep tt ttsgn slow dargs zsi xsi zsa xsa vzero i j sgnvz sgnvx sgntz sgntx nz nx grad) =
  fst (Fteik2d.sweep tt ttsgn' slow dargs zsi xsi zsa xsa vzero i j sgnvz sgnvx sgntz sgntx nz nx grad').
Proof. exact @Sweep2dProofs.sweep_tt_indep. Qed.

(* a whole pass: all shapes, every instance *)
Theorem C11_sweep2d_tt_independent_of_grad :
  forall (T : Type) (H : Num T) (nz nx : Z) (tt : arr T) (ttsgn ttsgn' : arr Z) (slow : arr T)
         (dz dx zsi xsi zsa xsa vzero : T) (grad grad' : bool),
  fst (sweep2d tt ttsgn slow dz dx zsi xsi zsa xsa vzero nz nx grad) =
  fst (sweep2d tt ttsgn' slow dz dx zsi xsi zsa xsa vzero nz nx grad').
Proof. exact @Sweep2dProofs.sweep2d_tt_indep. Qed.

Theorem C11_sweep3d_tt_independent_of_grad :
  forall (T : Type) (H : Num T) (nz nx ny : Z) (tt : arr T) (ttsgn ttsgn' : arr Z) (slow : arr T) (dz dx dy : T) (grad grad' : bool),
  fst (sweep3d tt ttsgn slow dz dx dy nz nx ny grad) = fst (sweep3d tt ttsgn' slow dz dx dy nz nx ny grad').
Proof. exact @Sweep3dProofs.sweep3d_tt_indep. Qed.

(* exact arithmetic: the normalisation `ttgrad[i, j] /= gn` under the test `gn > 0` yields a unit vector, and the test
   fails only for the zero vector, so every assembled vector has norm 1 or 0 *)
Theorem C11_normalised_has_unit_norm_2d :
  forall a b : R, (0 < norm2d (T:=R) a b)%R ->
  norm2d (T:=R) (a / norm2d (T:=R) a b)%R (b / norm2d (T:=R) a b)%R = 1%R.
Proof. exact norm2d_normalised. Qed.
Theorem C11_normalised_has_unit_norm_3d :
  forall a b c : R, (0 < norm3d (T:=R) a b c)%R ->
  norm3d (T:=R) (a / norm3d (T:=R) a b c)%R (b / norm3d (T:=R) a b c)%R (c / norm3d (T:=R) a b c)%R = 1%R.
Proof. exact norm3d_normalised. Qed.
Theorem C11_norm_zero_only_for_zero_vector :
  forall a b : R, norm2d (T:=R) a b = 0%R <-> a = 0%R /\ b = 0%R.
Proof. exact norm2d_zero_iff. Qed.

Print Assumptions C11_sweep_tt_independent_of_grad_2d.
Print Assumptions C11_sweep2d_tt_independent_of_grad.
Print Assumptions C11_sweep3d_tt_independent_of_grad.
Print Assumptions C11_normalised_has_unit_norm_2d.
Print Assumptions C11_normalised_has_unit_norm_3d.
Print Assumptions C11_norm_zero_only_for_zero_vector.
