(* C10  Free-step rays run from source to receiver inside the grid (model: gen/Ray2d.v, gen/Ray3d.v; `while` loops are fuelled, and the theorems bound the fuel needed)
   Only statements and `exact`: the proofs are in proofs/.  Written by tools/mkprops.py from Coq's own printing of the
   lemma statements; every statement is in full below so that it cannot be weakened without this file changing. *)
From Coq Require Import ZArith List Bool Reals PrimFloat.
From FT.lib Require Import Num Arr ArrLemmas NumArr.
From FT.gen Require Import Common Interp2d Interp3d FteikCommon Ray2d Ray3d.
From FT.proofs Require Import NumFLaws Ray2dProofs.
From FT.proofs Require Ray3dProofs RaySafety2d RaySafety3d RaySafetyExtra RayStep RayBudget ApiGenEq.
Import ListNotations.
Open Scope Z_scope.

(* free-step mode: with fuel max_step + 1 the tracer never runs out of fuel - every iteration stores a vertex and the budget test stops it (every numeric instance) *)
Theorem C10_terminates_within_budget_2d :
  forall (T : Type) (H : Num T) (z x zgrad xgrad : arr T) (zend xend zsrc xsrc stepsize : T) 
         (max_step : Z) (hg : bool) (fuel : nat),
       hg = false ->
       (Z.to_nat max_step + 1 <= fuel)%nat ->
       u_ray2d_core_v fuel z x zgrad xgrad zend xend zsrc xsrc stepsize max_step hg <> OutOfFuel.
Proof. exact @Ray2dProofs.ray2d_free_terminates. Qed.

(* 3D *)
Theorem C10_terminates_within_budget_3d :
  forall (T : Type) (H : Num T) (z x y zgrad xgrad ygrad : arr T) (zend xend yend zsrc xsrc ysrc stepsize : T)
         (max_step : Z) (hg : bool) (fuel : nat),
       hg = false ->
       (Z.to_nat max_step + 1 <= fuel)%nat ->
       u_ray3d_core_v fuel z x y zgrad xgrad ygrad zend xend yend zsrc xsrc ysrc stepsize max_step hg <> OutOfFuel.
Proof. exact @Ray3dProofs.ray3d_free_terminates. Qed.

(* what the core returns: count = -1 (end point outside), -2 (budget exhausted) or 1 <= count < max_step, and the buffer keeps its shape: a returned ray never exceeds the budget, never a truncated ray *)
Theorem C10_count_range_2d :
  forall (T : Type) (H : Num T) (z x zgrad xgrad : arr T) (zend xend zsrc xsrc stepsize : T) 
         (max_step : Z) (hg : bool) (fuel : nat) (ray : arr T) (count : Z),
       u_ray2d_core_v fuel z x zgrad xgrad zend xend zsrc xsrc stepsize max_step hg = Ok (ray, count) ->
       (count = -1 \/ count = -2 \/ 1 <= count < max_step) /\ shape ray = [max_step; 2].
Proof. exact @Ray2dProofs.ray2d_core_count_range. Qed.

(* 3D *)
Theorem C10_count_range_3d :
  forall (T : Type) (H : Num T) (z x y zgrad xgrad ygrad : arr T) (zend xend yend zsrc xsrc ysrc stepsize : T)
         (max_step : Z) (hg : bool) (fuel : nat) (ray : arr T) (count : Z),
       u_ray3d_core_v fuel z x y zgrad xgrad ygrad zend xend yend zsrc xsrc ysrc stepsize max_step hg = Ok (ray, count) ->
       (count = -1 \/ count = -2 \/ 1 <= count < max_step) /\ shape ray = [max_step; 3].
Proof. exact @Ray3dProofs.ray3d_core_count_range. Qed.

(* a returned polyline has count+1 rows, starts exactly at the source and ends exactly at the requested end point *)
Theorem C10_endpoints_2d :
  forall (T : Type) (H : Num T) (fuel : nat) (z x zgrad xgrad p src : arr T) (stepsize : T) 
         (max_step : Z) (hg : bool) (r : arr T),
       ray2d_1 fuel z x zgrad xgrad p src stepsize max_step hg = Ok r ->
       exists count : Z,
         1 <= count < max_step /\
         shape r = [count + 1; 2] /\
         get (nofZ 0) r [0; 0] = get (nofZ 0) src [0] /\
         get (nofZ 0) r [0; 1] = get (nofZ 0) src [1] /\
         get (nofZ 0) r [count; 0] = get (nofZ 0) p [0] /\ get (nofZ 0) r [count; 1] = get (nofZ 0) p [1].
Proof. exact @Ray2dProofs.ray2d_1_endpoints. Qed.

(* 3D *)
Theorem C10_endpoints_3d :
  forall (T : Type) (H : Num T) (fuel : nat) (z x y zgrad xgrad ygrad p src : arr T) (stepsize : T) 
         (max_step : Z) (hg : bool) (r : arr T),
       ray3d_1 fuel z x y zgrad xgrad ygrad p src stepsize max_step hg = Ok r ->
       exists count : Z,
         1 <= count < max_step /\
         shape r = [count + 1; 3] /\
         (get (nofZ 0) r [0; 0] = get (nofZ 0) src [0] /\
          get (nofZ 0) r [0; 1] = get (nofZ 0) src [1] /\ get (nofZ 0) r [0; 2] = get (nofZ 0) src [2]) /\
         get (nofZ 0) r [count; 0] = get (nofZ 0) p [0] /\
         get (nofZ 0) r [count; 1] = get (nofZ 0) p [1] /\ get (nofZ 0) r [count; 2] = get (nofZ 0) p [2].
Proof. exact @Ray3dProofs.ray3d_1_endpoints. Qed.

(* exact arithmetic: every stored vertex lies inside the grid hull (each new point is clamped), both modes *)
Theorem C10_vertices_in_hull_2d :
  forall (z x zgrad xgrad : arr R) (zend xend zsrc xsrc stepsize : R) (max_step : Z) (hg : bool) 
         (fuel : nat) (ray : arr R) (count : Z),
       (hg = true -> axis_ok z /\ axis_ok x) ->
       u_ray2d_core_v fuel z x zgrad xgrad zend xend zsrc xsrc stepsize max_step hg = Ok (ray, count) ->
       forall k : Z, 0 <= k < count -> row_in z x ray k.
Proof. exact @Ray2dProofs.ray2d_vertices_in_hull. Qed.

(* 3D *)
Theorem C10_vertices_in_hull_3d :
  forall (z x y zgrad xgrad ygrad : arr R) (zend xend yend zsrc xsrc ysrc stepsize : R) 
         (max_step : Z) (hg : bool) (fuel : nat) (ray : arr R) (count : Z),
       (hg = true -> axis_ok z /\ axis_ok x /\ axis_ok y) ->
       u_ray3d_core_v fuel z x y zgrad xgrad ygrad zend xend yend zsrc xsrc ysrc stepsize max_step hg = Ok (ray, count) ->
       forall k : Z, 0 <= k < count -> Ray3dProofs.row_in3 z x y ray k.
Proof. exact @Ray3dProofs.ray3d_vertices_in_hull. Qed.

(* ValueError exactly when the end point fails the hull test (modulo fuel) *)
Theorem C10_value_error_iff_outside_2d :
  forall (T : Type) (H : Num T) (z x zgrad xgrad : arr T) (zend xend zsrc xsrc stepsize : T) 
         (max_step : Z) (hg : bool) (fuel : nat),
       u_ray2d_v fuel z x zgrad xgrad zend xend zsrc xsrc stepsize max_step hg = OutOfFuel \/
       (u_ray2d_v fuel z x zgrad xgrad zend xend zsrc xsrc stepsize max_step hg = Raise ValueError <->
        hull2 z x zend xend = false).
Proof. exact @Ray2dProofs.ray2d_raises_value_error_iff. Qed.

(* binary64: a NaN end point raises ValueError *)
Theorem C10_nan_end_point_raises_2d :
  forall (z x zgrad xgrad : arr float) (zend xend zsrc xsrc stepsize : float) (max_step : Z) 
         (hg : bool) (fuel : nat),
       is_nan zend = true \/ is_nan xend = true ->
       u_ray2d_v fuel z x zgrad xgrad zend xend zsrc xsrc stepsize max_step hg = Raise ValueError.
Proof. exact @Ray2dProofs.ray2d_nan_end_point_raises. Qed.

(* tie: the generated free-step tracer is a fuelled while loop with explicit condition (source at least one step away) and body (interpolate, stop if the gradient norm is not positive, step, clamp, store); every numeric instance *)
Theorem C10_free_loop_explicit_2d :
  forall (T : Type) (H : Num T) (z x zgrad xgrad : arr T) (zend xend zsrc xsrc stepsize : T) (max_step : Z),
       hull2 z x zend xend = true ->
       forall fuel : nat,
       u_ray2d_core_v fuel z x zgrad xgrad zend xend zsrc xsrc stepsize max_step false =
       rbind
         (while_fuel fuel (RayStep.fcond2 zsrc xsrc stepsize) (RayStep.fbody2 z x zgrad xgrad stepsize max_step)
            (RayStep.init2 zend xend max_step)) (fin2 zsrc xsrc max_step (nfree_max2 z x stepsize)).
Proof. exact @RayStep.free_core2_eq. Qed.

(* exact arithmetic: consecutive stored vertices are at most one step apart (clamping onto the hull is non-expansive), every segment except the one that ends at the source *)
Theorem C10_step_length_2d :
  forall (z x zgrad xgrad : arr R) (zend xend zsrc xsrc stepsize : R) (max_step : Z) (fuel : nat) 
         (ray : arr R) (count : Z),
       u_ray2d_core_v fuel z x zgrad xgrad zend xend zsrc xsrc stepsize max_step false = Ok (ray, count) ->
       1 <= count ->
       (0 <= stepsize)%R -> forall k : Z, 0 <= k -> k + 1 < count -> (RayStep.vdist2 ray k (k + 1) <= stepsize)%R.
Proof. exact @RayStep.free_step_length_2d. Qed.

(* the segment ending at the source is shorter than one step OR the interpolated gradient vanishes at the last stored vertex - exactly known finding F17, no third case *)
Theorem C10_last_segment_2d :
  forall (z x zgrad xgrad : arr R) (zend xend zsrc xsrc stepsize : R) (max_step : Z) (fuel : nat) 
         (ray : arr R) (count : Z),
       u_ray2d_core_v fuel z x zgrad xgrad zend xend zsrc xsrc stepsize max_step false = Ok (ray, count) ->
       1 <= count ->
       let pz := get 0%R ray [count - 1; 0] in
       let px := get 0%R ray [count - 1; 1] in
       (RayStep.vdist2 ray (count - 1) count < stepsize)%R \/
       (stepsize <= RayStep.vdist2 ray (count - 1) count)%R /\
       u_interp2d_v z x zgrad pz px 0%R = 0%R /\ u_interp2d_v z x xgrad pz px 0%R = 0%R.
Proof. exact @RayStep.last_segment_2d. Qed.

(* 3D *)
Theorem C10_step_length_3d :
  forall (z x y zgrad xgrad ygrad : arr R) (zend xend yend zsrc xsrc ysrc stepsize : R) 
         (max_step : Z) (fuel : nat) (ray : arr R) (count : Z),
       u_ray3d_core_v fuel z x y zgrad xgrad ygrad zend xend yend zsrc xsrc ysrc stepsize max_step false =
       Ok (ray, count) ->
       1 <= count ->
       (0 <= stepsize)%R -> forall k : Z, 0 <= k -> k + 1 < count -> (RayStep.vdist3 ray k (k + 1) <= stepsize)%R.
Proof. exact @RayStep.free_step_length_3d. Qed.

(* 3D *)
Theorem C10_last_segment_3d :
  forall (z x y zgrad xgrad ygrad : arr R) (zend xend yend zsrc xsrc ysrc stepsize : R) 
         (max_step : Z) (fuel : nat) (ray : arr R) (count : Z),
       u_ray3d_core_v fuel z x y zgrad xgrad ygrad zend xend yend zsrc xsrc ysrc stepsize max_step false =
       Ok (ray, count) ->
       1 <= count ->
       let pz := get 0%R ray [count - 1; 0] in
       let px := get 0%R ray [count - 1; 1] in
       let py := get 0%R ray [count - 1; 2] in
       (RayStep.vdist3 ray (count - 1) count < stepsize)%R \/
       (stepsize <= RayStep.vdist3 ray (count - 1) count)%R /\
       u_interp3d_v z x y zgrad pz px py 0%R = 0%R /\
       u_interp3d_v z x y xgrad pz px py 0%R = 0%R /\ u_interp3d_v z x y ygrad pz px py 0%R = 0%R.
Proof. exact @RayStep.last_segment_3d. Qed.

(* public single-ray entry point (source first): all segments but the first are at most one step long; the first is, unless the gradient vanishes at vertex 1 *)
Theorem C10_returned_polyline_step_length_2d :
  forall (fuel : nat) (z x zgrad xgrad p src : arr R) (stepsize : R) (max_step : Z) (r : arr R),
       ray2d_1 fuel z x zgrad xgrad p src stepsize max_step false = Ok r ->
       exists count : Z,
         1 <= count < max_step /\
         shape r = [count + 1; 2] /\
         ((0 <= stepsize)%R -> forall i : Z, 1 <= i < count -> (RayStep.vdist2 r i (i + 1) <= stepsize)%R) /\
         ((RayStep.vdist2 r 0 1 < stepsize)%R \/
          (stepsize <= RayStep.vdist2 r 0 1)%R /\
          u_interp2d_v z x zgrad (get 0%R r [1; 0]) (get 0%R r [1; 1]) 0%R = 0%R /\
          u_interp2d_v z x xgrad (get 0%R r [1; 0]) (get 0%R r [1; 1]) 0%R = 0%R).
Proof. exact @RayStep.ray2d_1_step_length. Qed.

(* the unconditional clause 'consecutive vertices at most one step apart' is REFUTED for the segment touching the source: a returned ray with stepsize 1 and a last segment of length 2 (exact arithmetic; binary64 version RayStep.last_segment_2d_refuted_binary64) *)
Theorem C10_last_segment_longer_than_a_step_witness :
  exists ray : arr R,
         u_ray2d_core_v 11 RayStep.exz RayStep.exx RayStep.exgs RayStep.exg0 3%R 0%R 0%R 0%R 1%R 10 false = Ok (ray, 2) /\
         RayStep.vdist2 ray 1 2 = 2%R /\ ~ (RayStep.vdist2 ray 1 2 <= 1)%R.
Proof. exact @RayStep.last_segment_2d_refuted. Qed.

(* every numeric instance, both modes: if the core run with budget M returns count c >= 1 then every budget M' > c returns the SAME count and the same stored rows - the budget only decides between reporting exhaustion and returning the ray *)
Theorem C10_budget_does_not_change_the_ray_2d :
  forall (T : Type) (H : Num T) (z x zgrad xgrad : arr T) (zend xend zsrc xsrc stepsize : T) 
         (hg : bool) (M M' : Z) (fuel fuel' : nat) (ray : arr T) (c : Z),
       u_ray2d_core_v fuel z x zgrad xgrad zend xend zsrc xsrc stepsize M hg = Ok (ray, c) ->
       1 <= c ->
       c < M' ->
       (fuel <= fuel')%nat \/ RayBudget.enough2 z x stepsize M' fuel' ->
       exists ray' : arr T,
         u_ray2d_core_v fuel' z x zgrad xgrad zend xend zsrc xsrc stepsize M' hg = Ok (ray', c) /\
         shape ray' = [M'; 2] /\
         (forall k j : Z, 0 <= k < Z.min M M' -> 0 <= j < 2 -> get (nofZ 0) ray' [k; j] = get (nofZ 0) ray [k; j]).
Proof. exact @RayBudget.ray2d_budget_independent. Qed.

(* and every budget M'' <= c returns the sentinel -2 (RuntimeError in the wrapper): never a ray cut short and closed with a jump to the source *)
Theorem C10_budget_at_most_count_reports_exhaustion_2d :
  forall (T : Type) (H : Num T) (z x zgrad xgrad : arr T) (zend xend zsrc xsrc stepsize : T) 
         (hg : bool) (M M'' : Z) (fuel fuel'' : nat) (ray : arr T) (c : Z),
       u_ray2d_core_v fuel z x zgrad xgrad zend xend zsrc xsrc stepsize M hg = Ok (ray, c) ->
       1 <= c ->
       M'' <= c ->
       (fuel <= fuel'')%nat \/ RayBudget.enough2 z x stepsize M'' fuel'' ->
       exists ray'' : arr T, u_ray2d_core_v fuel'' z x zgrad xgrad zend xend zsrc xsrc stepsize M'' hg = Ok (ray'', -2).
Proof. exact @RayBudget.ray2d_budget_exhausted. Qed.

(* entry point `ray2d` (single end point): a returned polyline of c+1 rows is returned unchanged for every budget > c, and every budget <= c raises RuntimeError *)
Theorem C10_public_ray_budget_characterisation_2d :
  forall (T : Type) (H : Num T) (z x zgrad xgrad p src : arr T) (stepsize : T) (hg : bool) 
         (M : Z) (fuel : nat) (r : arr T),
       ray2d_1 fuel z x zgrad xgrad p src stepsize M hg = Ok r ->
       exists c : Z,
         1 <= c < M /\
         shape r = [c + 1; 2] /\
         (forall (M' : Z) (fuel' : nat),
          c < M' ->
          (fuel <= fuel')%nat \/ RayBudget.enough2 z x stepsize M' fuel' ->
          ray2d_1 fuel' z x zgrad xgrad p src stepsize M' hg = Ok r) /\
         (forall (M'' : Z) (fuel'' : nat),
          M'' <= c ->
          (fuel <= fuel'')%nat \/ RayBudget.enough2 z x stepsize M'' fuel'' ->
          ray2d_1 fuel'' z x zgrad xgrad p src stepsize M'' hg = Raise RuntimeError).
Proof. exact @RayBudget.ray2d_1_budget. Qed.

(* 3D *)
Theorem C10_budget_does_not_change_the_ray_3d :
  forall (T : Type) (H : Num T) (z x y zgrad xgrad ygrad : arr T) (zend xend yend zsrc xsrc ysrc stepsize : T)
         (hg : bool) (M M' : Z) (fuel fuel' : nat) (ray : arr T) (c : Z),
       u_ray3d_core_v fuel z x y zgrad xgrad ygrad zend xend yend zsrc xsrc ysrc stepsize M hg = Ok (ray, c) ->
       1 <= c ->
       c < M' ->
       (fuel <= fuel')%nat \/ RayBudget.enough3 z x y stepsize M' fuel' ->
       exists ray' : arr T,
         u_ray3d_core_v fuel' z x y zgrad xgrad ygrad zend xend yend zsrc xsrc ysrc stepsize M' hg = Ok (ray', c) /\
         shape ray' = [M'; 3] /\
         (forall k j : Z, 0 <= k < Z.min M M' -> 0 <= j < 3 -> get (nofZ 0) ray' [k; j] = get (nofZ 0) ray [k; j]).
Proof. exact @RayBudget.ray3d_budget_independent. Qed.

(* 3D *)
Theorem C10_budget_at_most_count_reports_exhaustion_3d :
  forall (T : Type) (H : Num T) (z x y zgrad xgrad ygrad : arr T) (zend xend yend zsrc xsrc ysrc stepsize : T)
         (hg : bool) (M M'' : Z) (fuel fuel'' : nat) (ray : arr T) (c : Z),
       u_ray3d_core_v fuel z x y zgrad xgrad ygrad zend xend yend zsrc xsrc ysrc stepsize M hg = Ok (ray, c) ->
       1 <= c ->
       M'' <= c ->
       (fuel <= fuel'')%nat \/ RayBudget.enough3 z x y stepsize M'' fuel'' ->
       exists ray'' : arr T,
         u_ray3d_core_v fuel'' z x y zgrad xgrad ygrad zend xend yend zsrc xsrc ysrc stepsize M'' hg = Ok (ray'', -2).
Proof. exact @RayBudget.ray3d_budget_exhausted. Qed.

(* 3D *)
Theorem C10_public_ray_budget_characterisation_3d :
  forall (T : Type) (H : Num T) (z x y zgrad xgrad ygrad p src : arr T) (stepsize : T) 
         (hg : bool) (M : Z) (fuel : nat) (r : arr T),
       ray3d_1 fuel z x y zgrad xgrad ygrad p src stepsize M hg = Ok r ->
       exists c : Z,
         1 <= c < M /\
         shape r = [c + 1; 3] /\
         (forall (M' : Z) (fuel' : nat),
          c < M' ->
          (fuel <= fuel')%nat \/ RayBudget.enough3 z x y stepsize M' fuel' ->
          ray3d_1 fuel' z x y zgrad xgrad ygrad p src stepsize M' hg = Ok r) /\
         (forall (M'' : Z) (fuel'' : nat),
          M'' <= c ->
          (fuel <= fuel'')%nat \/ RayBudget.enough3 z x y stepsize M'' fuel'' ->
          ray3d_1 fuel'' z x y zgrad xgrad ygrad p src stepsize M'' hg = Raise RuntimeError).
Proof. exact @RayBudget.ray3d_1_budget. Qed.

(* API layer, extracted from _grid.py on every run (gen/ApiGen.v): the default step (smallest spacing; forced in grid-honouring mode) and the default budget int(2 * diagonal / step) are the hand model's (coq/model/Api.v), every numeric instance *)
Theorem C10_raytrace_defaults_2d :
  forall (T : Type) (N : Num T) (nz nx : Z) (dz dx : T) (stepsize : option T) (max_step : option Z) (honor : bool),
       ApiGen.raytrace_defaults_2d nz nx dz dx stepsize max_step honor =
       (Api.ray_stepsize [dz; dx] stepsize honor,
        Api.ray_max_step [nz; nx] [dz; dx] (Api.ray_stepsize [dz; dx] stepsize honor) max_step).
Proof. exact @ApiGenEq.gen_raytrace_defaults_2d_eq. Qed.

(* 3D *)
Theorem C10_raytrace_defaults_3d :
  forall (T : Type) (N : Num T) (nz nx ny : Z) (dz dx dy : T) (stepsize : option T) (max_step : option Z)
         (honor : bool),
       ApiGen.raytrace_defaults_3d nz nx ny dz dx dy stepsize max_step honor =
       (Api.ray_stepsize [dz; dx; dy] stepsize honor,
        Api.ray_max_step [nz; nx; ny] [dz; dx; dy] (Api.ray_stepsize [dz; dx; dy] stepsize honor) max_step).
Proof. exact @ApiGenEq.gen_raytrace_defaults_3d_eq. Qed.

(* which attribute is handed to which kernel parameter (axes, gradient components in order Z, X, end points, source, step, budget, mode) *)
Theorem C10_raytrace_call_wiring_2d :
  ApiGen.raytrace_2d_call =
       (String.String (Ascii.Ascii false true false false true true true false)
          (String.String (Ascii.Ascii true false false false false true true false)
             (String.String (Ascii.Ascii true false false true true true true false)
                (String.String (Ascii.Ascii false true false false true true false false)
                   (String.String (Ascii.Ascii false false true false false true true false) String.EmptyString)))),
        [String.String (Ascii.Ascii true true false false true true true false)
           (String.String (Ascii.Ascii true false true false false true true false)
              (String.String (Ascii.Ascii false false true true false true true false)
                 (String.String (Ascii.Ascii false true true false false true true false)
                    (String.String (Ascii.Ascii false true true true false true false false)
                       (String.String (Ascii.Ascii false true false true true true true false)
                          (String.String (Ascii.Ascii true false false false false true true false)
                             (String.String (Ascii.Ascii false false false true true true true false)
                                (String.String (Ascii.Ascii true false false true false true true false)
                                   (String.String (Ascii.Ascii true true false false true true true false)
                                      String.EmptyString)))))))));
         String.String (Ascii.Ascii true true false false true true true false)
           (String.String (Ascii.Ascii true false true false false true true false)
              (String.String (Ascii.Ascii false false true true false true true false)
                 (String.String (Ascii.Ascii false true true false false true true false)
                    (String.String (Ascii.Ascii false true true true false true false false)
                       (String.String (Ascii.Ascii false false false true true true true false)
                          (String.String (Ascii.Ascii true false false false false true true false)
                             (String.String (Ascii.Ascii false false false true true true true false)
                                (String.String (Ascii.Ascii true false false true false true true false)
                                   (String.String (Ascii.Ascii true true false false true true true false)
                                      String.EmptyString)))))))));
         String.String (Ascii.Ascii true true true false false true true false)
           (String.String (Ascii.Ascii false true false false true true true false)
              (String.String (Ascii.Ascii true false false false false true true false)
                 (String.String (Ascii.Ascii false false true false false true true false)
                    (String.String (Ascii.Ascii true false false true false true true false)
                       (String.String (Ascii.Ascii true false true false false true true false)
                          (String.String (Ascii.Ascii false true true true false true true false)
                             (String.String (Ascii.Ascii false false true false true true true false)
                                (String.String (Ascii.Ascii true true false true true false true false)
                                   (String.String (Ascii.Ascii false false false false true true false false)
                                      (String.String (Ascii.Ascii true false true true true false true false)
                                         (String.String (Ascii.Ascii false true true true false true false false)
                                            (String.String (Ascii.Ascii true true true false false true true false)
                                               (String.String (Ascii.Ascii false true false false true true true false)
                                                  (String.String
                                                     (Ascii.Ascii true false false true false true true false)
                                                     (String.String
                                                        (Ascii.Ascii false false true false false true true false)
                                                        String.EmptyString)))))))))))))));
         String.String (Ascii.Ascii true true true false false true true false)
           (String.String (Ascii.Ascii false true false false true true true false)
              (String.String (Ascii.Ascii true false false false false true true false)
                 (String.String (Ascii.Ascii false false true false false true true false)
                    (String.String (Ascii.Ascii true false false true false true true false)
                       (String.String (Ascii.Ascii true false true false false true true false)
                          (String.String (Ascii.Ascii false true true true false true true false)
                             (String.String (Ascii.Ascii false false true false true true true false)
                                (String.String (Ascii.Ascii true true false true true false true false)
                                   (String.String (Ascii.Ascii true false false false true true false false)
                                      (String.String (Ascii.Ascii true false true true true false true false)
                                         (String.String (Ascii.Ascii false true true true false true false false)
                                            (String.String (Ascii.Ascii true true true false false true true false)
                                               (String.String (Ascii.Ascii false true false false true true true false)
                                                  (String.String
                                                     (Ascii.Ascii true false false true false true true false)
                                                     (String.String
                                                        (Ascii.Ascii false false true false false true true false)
                                                        String.EmptyString)))))))))))))));
         String.String (Ascii.Ascii false true true true false true true false)
           (String.String (Ascii.Ascii false false false false true true true false)
              (String.String (Ascii.Ascii false true true true false true false false)
                 (String.String (Ascii.Ascii true false false false false true true false)
                    (String.String (Ascii.Ascii true true false false true true true false)
                       (String.String (Ascii.Ascii true false false false false true true false)
                          (String.String (Ascii.Ascii false true false false true true true false)
                             (String.String (Ascii.Ascii false true false false true true true false)
                                (String.String (Ascii.Ascii true false false false false true true false)
                                   (String.String (Ascii.Ascii true false false true true true true false)
                                      (String.String (Ascii.Ascii false false false true false true false false)
                                         (String.String (Ascii.Ascii false false false false true true true false)
                                            (String.String (Ascii.Ascii true true true true false true true false)
                                               (String.String (Ascii.Ascii true false false true false true true false)
                                                  (String.String
                                                     (Ascii.Ascii false true true true false true true false)
                                                     (String.String
                                                        (Ascii.Ascii false false true false true true true false)
                                                        (String.String
                                                           (Ascii.Ascii true true false false true true true false)
                                                           (String.String
                                                              (Ascii.Ascii false false true true false true false false)
                                                              (String.String
                                                                 (Ascii.Ascii false false false false false true false
                                                                    false)
                                                                 (String.String
                                                                    (Ascii.Ascii false false true false false true true
                                                                       false)
                                                                    (String.String
                                                                       (Ascii.Ascii false false true false true true
                                                                          true false)
                                                                       (String.String
                                                                          (Ascii.Ascii true false false true true true
                                                                             true false)
                                                                          (String.String
                                                                             (Ascii.Ascii false false false false true
                                                                                true true false)
                                                                             (String.String
                                                                                (Ascii.Ascii true false true false
                                                                                   false true true false)
                                                                                (String.String
                                                                                   (Ascii.Ascii true false true true
                                                                                      true true false false)
                                                                                   (String.String
                                                                                      (Ascii.Ascii false true true true
                                                                                         false true true false)
                                                                                      (String.String
                                                                                         (Ascii.Ascii false false false
                                                                                          false true true true false)
                                                                                         (String.String
                                                                                          (Ascii.Ascii false true true
                                                                                          true false true false false)
                                                                                          (String.String
                                                                                          (Ascii.Ascii false true true
                                                                                          false false true true false)
                                                                                          (String.String
                                                                                          (Ascii.Ascii false false true
                                                                                          true false true true false)
                                                                                          (String.String
                                                                                          (Ascii.Ascii true true true
                                                                                          true false true true false)
                                                                                          (String.String
                                                                                          (Ascii.Ascii true false false
                                                                                          false false true true false)
                                                                                          (String.String
                                                                                          (Ascii.Ascii false false true
                                                                                          false true true true false)
                                                                                          (String.String
                                                                                          (Ascii.Ascii false true true
                                                                                          false true true false false)
                                                                                          (String.String
                                                                                          (Ascii.Ascii false false true
                                                                                          false true true false false)
                                                                                          (String.String
                                                                                          (Ascii.Ascii true false false
                                                                                          true false true false false)
                                                                                          String.EmptyString)))))))))))))))))))))))))))))))))));
         String.String (Ascii.Ascii true true false false true true true false)
           (String.String (Ascii.Ascii true false true false false true true false)
              (String.String (Ascii.Ascii false false true true false true true false)
                 (String.String (Ascii.Ascii false true true false false true true false)
                    (String.String (Ascii.Ascii false true true true false true false false)
                       (String.String (Ascii.Ascii true true true true true false true false)
                          (String.String (Ascii.Ascii true true false false true true true false)
                             (String.String (Ascii.Ascii true true true true false true true false)
                                (String.String (Ascii.Ascii true false true false true true true false)
                                   (String.String (Ascii.Ascii false true false false true true true false)
                                      (String.String (Ascii.Ascii true true false false false true true false)
                                         (String.String (Ascii.Ascii true false true false false true true false)
                                            String.EmptyString)))))))))));
         String.String (Ascii.Ascii true true false false true true true false)
           (String.String (Ascii.Ascii false false true false true true true false)
              (String.String (Ascii.Ascii true false true false false true true false)
                 (String.String (Ascii.Ascii false false false false true true true false)
                    (String.String (Ascii.Ascii true true false false true true true false)
                       (String.String (Ascii.Ascii true false false true false true true false)
                          (String.String (Ascii.Ascii false true false true true true true false)
                             (String.String (Ascii.Ascii true false true false false true true false)
                                String.EmptyString)))))));
         String.String (Ascii.Ascii true false true true false true true false)
           (String.String (Ascii.Ascii true false false false false true true false)
              (String.String (Ascii.Ascii false false false true true true true false)
                 (String.String (Ascii.Ascii true true true true true false true false)
                    (String.String (Ascii.Ascii true true false false true true true false)
                       (String.String (Ascii.Ascii false false true false true true true false)
                          (String.String (Ascii.Ascii true false true false false true true false)
                             (String.String (Ascii.Ascii false false false false true true true false)
                                String.EmptyString)))))));
         String.String (Ascii.Ascii false false false true false true true false)
           (String.String (Ascii.Ascii true true true true false true true false)
              (String.String (Ascii.Ascii false true true true false true true false)
                 (String.String (Ascii.Ascii true true true true false true true false)
                    (String.String (Ascii.Ascii false true false false true true true false)
                       (String.String (Ascii.Ascii true true true true true false true false)
                          (String.String (Ascii.Ascii true true true false false true true false)
                             (String.String (Ascii.Ascii false true false false true true true false)
                                (String.String (Ascii.Ascii true false false true false true true false)
                                   (String.String (Ascii.Ascii false false true false false true true false)
                                      String.EmptyString)))))))))]) /\
       ApiGen.raytrace_2d_binding =
       [(String.String (Ascii.Ascii false true false true true true true false) String.EmptyString,
         String.String (Ascii.Ascii true true false false true true true false)
           (String.String (Ascii.Ascii true false true false false true true false)
              (String.String (Ascii.Ascii false false true true false true true false)
                 (String.String (Ascii.Ascii false true true false false true true false)
                    (String.String (Ascii.Ascii false true true true false true false false)
                       (String.String (Ascii.Ascii false true false true true true true false)
                          (String.String (Ascii.Ascii true false false false false true true false)
                             (String.String (Ascii.Ascii false false false true true true true false)
                                (String.String (Ascii.Ascii true false false true false true true false)
                                   (String.String (Ascii.Ascii true true false false true true true false)
                                      String.EmptyString))))))))));
        (String.String (Ascii.Ascii false false false true true true true false) String.EmptyString,
         String.String (Ascii.Ascii true true false false true true true false)
           (String.String (Ascii.Ascii true false true false false true true false)
              (String.String (Ascii.Ascii false false true true false true true false)
                 (String.String (Ascii.Ascii false true true false false true true false)
                    (String.String (Ascii.Ascii false true true true false true false false)
                       (String.String (Ascii.Ascii false false false true true true true false)
                          (String.String (Ascii.Ascii true false false false false true true false)
                             (String.String (Ascii.Ascii false false false true true true true false)
                                (String.String (Ascii.Ascii true false false true false true true false)
                                   (String.String (Ascii.Ascii true true false false true true true false)
                                      String.EmptyString))))))))));
        (String.String (Ascii.Ascii false true false true true true true false)
           (String.String (Ascii.Ascii true true true false false true true false)
              (String.String (Ascii.Ascii false true false false true true true false)
                 (String.String (Ascii.Ascii true false false false false true true false)
                    (String.String (Ascii.Ascii false false true false false true true false) String.EmptyString)))),
         String.String (Ascii.Ascii true true true false false true true false)
           (String.String (Ascii.Ascii false true false false true true true false)
              (String.String (Ascii.Ascii true false false false false true true false)
                 (String.String (Ascii.Ascii false false true false false true true false)
                    (String.String (Ascii.Ascii true false false true false true true false)
                       (String.String (Ascii.Ascii true false true false false true true false)
                          (String.String (Ascii.Ascii false true true true false true true false)
                             (String.String (Ascii.Ascii false false true false true true true false)
                                (String.String (Ascii.Ascii true true false true true false true false)
                                   (String.String (Ascii.Ascii false false false false true true false false)
                                      (String.String (Ascii.Ascii true false true true true false true false)
                                         (String.String (Ascii.Ascii false true true true false true false false)
                                            (String.String (Ascii.Ascii true true true false false true true false)
                                               (String.String (Ascii.Ascii false true false false true true true false)
                                                  (String.String
                                                     (Ascii.Ascii true false false true false true true false)
                                                     (String.String
                                                        (Ascii.Ascii false false true false false true true false)
                                                        String.EmptyString))))))))))))))));
        (String.String (Ascii.Ascii false false false true true true true false)
           (String.String (Ascii.Ascii true true true false false true true false)
              (String.String (Ascii.Ascii false true false false true true true false)
                 (String.String (Ascii.Ascii true false false false false true true false)
                    (String.String (Ascii.Ascii false false true false false true true false) String.EmptyString)))),
         String.String (Ascii.Ascii true true true false false true true false)
           (String.String (Ascii.Ascii false true false false true true true false)
              (String.String (Ascii.Ascii true false false false false true true false)
                 (String.String (Ascii.Ascii false false true false false true true false)
                    (String.String (Ascii.Ascii true false false true false true true false)
                       (String.String (Ascii.Ascii true false true false false true true false)
                          (String.String (Ascii.Ascii false true true true false true true false)
                             (String.String (Ascii.Ascii false false true false true true true false)
                                (String.String (Ascii.Ascii true true false true true false true false)
                                   (String.String (Ascii.Ascii true false false false true true false false)
                                      (String.String (Ascii.Ascii true false true true true false true false)
                                         (String.String (Ascii.Ascii false true true true false true false false)
                                            (String.String (Ascii.Ascii true true true false false true true false)
                                               (String.String (Ascii.Ascii false true false false true true true false)
                                                  (String.String
                                                     (Ascii.Ascii true false false true false true true false)
                                                     (String.String
                                                        (Ascii.Ascii false false true false false true true false)
                                                        String.EmptyString))))))))))))))));
        (String.String (Ascii.Ascii false false false false true true true false) String.EmptyString,
         String.String (Ascii.Ascii false true true true false true true false)
           (String.String (Ascii.Ascii false false false false true true true false)
              (String.String (Ascii.Ascii false true true true false true false false)
                 (String.String (Ascii.Ascii true false false false false true true false)
                    (String.String (Ascii.Ascii true true false false true true true false)
                       (String.String (Ascii.Ascii true false false false false true true false)
                          (String.String (Ascii.Ascii false true false false true true true false)
                             (String.String (Ascii.Ascii false true false false true true true false)
                                (String.String (Ascii.Ascii true false false false false true true false)
                                   (String.String (Ascii.Ascii true false false true true true true false)
                                      (String.String (Ascii.Ascii false false false true false true false false)
                                         (String.String (Ascii.Ascii false false false false true true true false)
                                            (String.String (Ascii.Ascii true true true true false true true false)
                                               (String.String (Ascii.Ascii true false false true false true true false)
                                                  (String.String
                                                     (Ascii.Ascii false true true true false true true false)
                                                     (String.String
                                                        (Ascii.Ascii false false true false true true true false)
                                                        (String.String
                                                           (Ascii.Ascii true true false false true true true false)
                                                           (String.String
                                                              (Ascii.Ascii false false true true false true false false)
                                                              (String.String
                                                                 (Ascii.Ascii false false false false false true false
                                                                    false)
                                                                 (String.String
                                                                    (Ascii.Ascii false false true false false true true
                                                                       false)
                                                                    (String.String
                                                                       (Ascii.Ascii false false true false true true
                                                                          true false)
                                                                       (String.String
                                                                          (Ascii.Ascii true false false true true true
                                                                             true false)
                                                                          (String.String
                                                                             (Ascii.Ascii false false false false true
                                                                                true true false)
                                                                             (String.String
                                                                                (Ascii.Ascii true false true false
                                                                                   false true true false)
                                                                                (String.String
                                                                                   (Ascii.Ascii true false true true
                                                                                      true true false false)
                                                                                   (String.String
                                                                                      (Ascii.Ascii false true true true
                                                                                         false true true false)
                                                                                      (String.String
                                                                                         (Ascii.Ascii false false false
                                                                                          false true true true false)
                                                                                         (String.String
                                                                                          (Ascii.Ascii false true true
                                                                                          true false true false false)
                                                                                          (String.String
                                                                                          (Ascii.Ascii false true true
                                                                                          false false true true false)
                                                                                          (String.String
                                                                                          (Ascii.Ascii false false true
                                                                                          true false true true false)
                                                                                          (String.String
                                                                                          (Ascii.Ascii true true true
                                                                                          true false true true false)
                                                                                          (String.String
                                                                                          (Ascii.Ascii true false false
                                                                                          false false true true false)
                                                                                          (String.String
                                                                                          (Ascii.Ascii false false true
                                                                                          false true true true false)
                                                                                          (String.String
                                                                                          (Ascii.Ascii false true true
                                                                                          false true true false false)
                                                                                          (String.String
                                                                                          (Ascii.Ascii false false true
                                                                                          false true true false false)
                                                                                          (String.String
                                                                                          (Ascii.Ascii true false false
                                                                                          true false true false false)
                                                                                          String.EmptyString))))))))))))))))))))))))))))))))))));
        (String.String (Ascii.Ascii true true false false true true true false)
           (String.String (Ascii.Ascii false true false false true true true false)
              (String.String (Ascii.Ascii true true false false false true true false) String.EmptyString)),
         String.String (Ascii.Ascii true true false false true true true false)
           (String.String (Ascii.Ascii true false true false false true true false)
              (String.String (Ascii.Ascii false false true true false true true false)
                 (String.String (Ascii.Ascii false true true false false true true false)
                    (String.String (Ascii.Ascii false true true true false true false false)
                       (String.String (Ascii.Ascii true true true true true false true false)
                          (String.String (Ascii.Ascii true true false false true true true false)
                             (String.String (Ascii.Ascii true true true true false true true false)
                                (String.String (Ascii.Ascii true false true false true true true false)
                                   (String.String (Ascii.Ascii false true false false true true true false)
                                      (String.String (Ascii.Ascii true true false false false true true false)
                                         (String.String (Ascii.Ascii true false true false false true true false)
                                            String.EmptyString))))))))))));
        (String.String (Ascii.Ascii true true false false true true true false)
           (String.String (Ascii.Ascii false false true false true true true false)
              (String.String (Ascii.Ascii true false true false false true true false)
                 (String.String (Ascii.Ascii false false false false true true true false)
                    (String.String (Ascii.Ascii true true false false true true true false)
                       (String.String (Ascii.Ascii true false false true false true true false)
                          (String.String (Ascii.Ascii false true false true true true true false)
                             (String.String (Ascii.Ascii true false true false false true true false)
                                String.EmptyString))))))),
         String.String (Ascii.Ascii true true false false true true true false)
           (String.String (Ascii.Ascii false false true false true true true false)
              (String.String (Ascii.Ascii true false true false false true true false)
                 (String.String (Ascii.Ascii false false false false true true true false)
                    (String.String (Ascii.Ascii true true false false true true true false)
                       (String.String (Ascii.Ascii true false false true false true true false)
                          (String.String (Ascii.Ascii false true false true true true true false)
                             (String.String (Ascii.Ascii true false true false false true true false)
                                String.EmptyString))))))));
        (String.String (Ascii.Ascii true false true true false true true false)
           (String.String (Ascii.Ascii true false false false false true true false)
              (String.String (Ascii.Ascii false false false true true true true false)
                 (String.String (Ascii.Ascii true true true true true false true false)
                    (String.String (Ascii.Ascii true true false false true true true false)
                       (String.String (Ascii.Ascii false false true false true true true false)
                          (String.String (Ascii.Ascii true false true false false true true false)
                             (String.String (Ascii.Ascii false false false false true true true false)
                                String.EmptyString))))))),
         String.String (Ascii.Ascii true false true true false true true false)
           (String.String (Ascii.Ascii true false false false false true true false)
              (String.String (Ascii.Ascii false false false true true true true false)
                 (String.String (Ascii.Ascii true true true true true false true false)
                    (String.String (Ascii.Ascii true true false false true true true false)
                       (String.String (Ascii.Ascii false false true false true true true false)
                          (String.String (Ascii.Ascii true false true false false true true false)
                             (String.String (Ascii.Ascii false false false false true true true false)
                                String.EmptyString))))))));
        (String.String (Ascii.Ascii false false false true false true true false)
           (String.String (Ascii.Ascii true true true true false true true false)
              (String.String (Ascii.Ascii false true true true false true true false)
                 (String.String (Ascii.Ascii true true true true false true true false)
                    (String.String (Ascii.Ascii false true false false true true true false)
                       (String.String (Ascii.Ascii true true true true true false true false)
                          (String.String (Ascii.Ascii true true true false false true true false)
                             (String.String (Ascii.Ascii false true false false true true true false)
                                (String.String (Ascii.Ascii true false false true false true true false)
                                   (String.String (Ascii.Ascii false false true false false true true false)
                                      String.EmptyString))))))))),
         String.String (Ascii.Ascii false false false true false true true false)
           (String.String (Ascii.Ascii true true true true false true true false)
              (String.String (Ascii.Ascii false true true true false true true false)
                 (String.String (Ascii.Ascii true true true true false true true false)
                    (String.String (Ascii.Ascii false true false false true true true false)
                       (String.String (Ascii.Ascii true true true true true false true false)
                          (String.String (Ascii.Ascii true true true false false true true false)
                             (String.String (Ascii.Ascii false true false false true true true false)
                                (String.String (Ascii.Ascii true false false true false true true false)
                                   (String.String (Ascii.Ascii false false true false false true true false)
                                      String.EmptyString))))))))))] /\
       map fst ApiGen.raytrace_2d_binding = ApiGen.ray2d_params /\
       map snd ApiGen.raytrace_2d_binding = snd ApiGen.raytrace_2d_call.
Proof. exact @ApiGenEq.gen_raytrace_2d_call. Qed.

(* 3D *)
Theorem C10_raytrace_call_wiring_3d :
  ApiGen.raytrace_3d_call =
       (String.String (Ascii.Ascii false true false false true true true false)
          (String.String (Ascii.Ascii true false false false false true true false)
             (String.String (Ascii.Ascii true false false true true true true false)
                (String.String (Ascii.Ascii true true false false true true false false)
                   (String.String (Ascii.Ascii false false true false false true true false) String.EmptyString)))),
        [String.String (Ascii.Ascii true true false false true true true false)
           (String.String (Ascii.Ascii true false true false false true true false)
              (String.String (Ascii.Ascii false false true true false true true false)
                 (String.String (Ascii.Ascii false true true false false true true false)
                    (String.String (Ascii.Ascii false true true true false true false false)
                       (String.String (Ascii.Ascii false true false true true true true false)
                          (String.String (Ascii.Ascii true false false false false true true false)
                             (String.String (Ascii.Ascii false false false true true true true false)
                                (String.String (Ascii.Ascii true false false true false true true false)
                                   (String.String (Ascii.Ascii true true false false true true true false)
                                      String.EmptyString)))))))));
         String.String (Ascii.Ascii true true false false true true true false)
           (String.String (Ascii.Ascii true false true false false true true false)
              (String.String (Ascii.Ascii false false true true false true true false)
                 (String.String (Ascii.Ascii false true true false false true true false)
                    (String.String (Ascii.Ascii false true true true false true false false)
                       (String.String (Ascii.Ascii false false false true true true true false)
                          (String.String (Ascii.Ascii true false false false false true true false)
                             (String.String (Ascii.Ascii false false false true true true true false)
                                (String.String (Ascii.Ascii true false false true false true true false)
                                   (String.String (Ascii.Ascii true true false false true true true false)
                                      String.EmptyString)))))))));
         String.String (Ascii.Ascii true true false false true true true false)
           (String.String (Ascii.Ascii true false true false false true true false)
              (String.String (Ascii.Ascii false false true true false true true false)
                 (String.String (Ascii.Ascii false true true false false true true false)
                    (String.String (Ascii.Ascii false true true true false true false false)
                       (String.String (Ascii.Ascii true false false true true true true false)
                          (String.String (Ascii.Ascii true false false false false true true false)
                             (String.String (Ascii.Ascii false false false true true true true false)
                                (String.String (Ascii.Ascii true false false true false true true false)
                                   (String.String (Ascii.Ascii true true false false true true true false)
                                      String.EmptyString)))))))));
         String.String (Ascii.Ascii true true true false false true true false)
           (String.String (Ascii.Ascii false true false false true true true false)
              (String.String (Ascii.Ascii true false false false false true true false)
                 (String.String (Ascii.Ascii false false true false false true true false)
                    (String.String (Ascii.Ascii true false false true false true true false)
                       (String.String (Ascii.Ascii true false true false false true true false)
                          (String.String (Ascii.Ascii false true true true false true true false)
                             (String.String (Ascii.Ascii false false true false true true true false)
                                (String.String (Ascii.Ascii true true false true true false true false)
                                   (String.String (Ascii.Ascii false false false false true true false false)
                                      (String.String (Ascii.Ascii true false true true true false true false)
                                         (String.String (Ascii.Ascii false true true true false true false false)
                                            (String.String (Ascii.Ascii true true true false false true true false)
                                               (String.String (Ascii.Ascii false true false false true true true false)
                                                  (String.String
                                                     (Ascii.Ascii true false false true false true true false)
                                                     (String.String
                                                        (Ascii.Ascii false false true false false true true false)
                                                        String.EmptyString)))))))))))))));
         String.String (Ascii.Ascii true true true false false true true false)
           (String.String (Ascii.Ascii false true false false true true true false)
              (String.String (Ascii.Ascii true false false false false true true false)
                 (String.String (Ascii.Ascii false false true false false true true false)
                    (String.String (Ascii.Ascii true false false true false true true false)
                       (String.String (Ascii.Ascii true false true false false true true false)
                          (String.String (Ascii.Ascii false true true true false true true false)
                             (String.String (Ascii.Ascii false false true false true true true false)
                                (String.String (Ascii.Ascii true true false true true false true false)
                                   (String.String (Ascii.Ascii true false false false true true false false)
                                      (String.String (Ascii.Ascii true false true true true false true false)
                                         (String.String (Ascii.Ascii false true true true false true false false)
                                            (String.String (Ascii.Ascii true true true false false true true false)
                                               (String.String (Ascii.Ascii false true false false true true true false)
                                                  (String.String
                                                     (Ascii.Ascii true false false true false true true false)
                                                     (String.String
                                                        (Ascii.Ascii false false true false false true true false)
                                                        String.EmptyString)))))))))))))));
         String.String (Ascii.Ascii true true true false false true true false)
           (String.String (Ascii.Ascii false true false false true true true false)
              (String.String (Ascii.Ascii true false false false false true true false)
                 (String.String (Ascii.Ascii false false true false false true true false)
                    (String.String (Ascii.Ascii true false false true false true true false)
                       (String.String (Ascii.Ascii true false true false false true true false)
                          (String.String (Ascii.Ascii false true true true false true true false)
                             (String.String (Ascii.Ascii false false true false true true true false)
                                (String.String (Ascii.Ascii true true false true true false true false)
                                   (String.String (Ascii.Ascii false true false false true true false false)
                                      (String.String (Ascii.Ascii true false true true true false true false)
                                         (String.String (Ascii.Ascii false true true true false true false false)
                                            (String.String (Ascii.Ascii true true true false false true true false)
                                               (String.String (Ascii.Ascii false true false false true true true false)
                                                  (String.String
                                                     (Ascii.Ascii true false false true false true true false)
                                                     (String.String
                                                        (Ascii.Ascii false false true false false true true false)
                                                        String.EmptyString)))))))))))))));
         String.String (Ascii.Ascii false true true true false true true false)
           (String.String (Ascii.Ascii false false false false true true true false)
              (String.String (Ascii.Ascii false true true true false true false false)
                 (String.String (Ascii.Ascii true false false false false true true false)
                    (String.String (Ascii.Ascii true true false false true true true false)
                       (String.String (Ascii.Ascii true false false false false true true false)
                          (String.String (Ascii.Ascii false true false false true true true false)
                             (String.String (Ascii.Ascii false true false false true true true false)
                                (String.String (Ascii.Ascii true false false false false true true false)
                                   (String.String (Ascii.Ascii true false false true true true true false)
                                      (String.String (Ascii.Ascii false false false true false true false false)
                                         (String.String (Ascii.Ascii false false false false true true true false)
                                            (String.String (Ascii.Ascii true true true true false true true false)
                                               (String.String (Ascii.Ascii true false false true false true true false)
                                                  (String.String
                                                     (Ascii.Ascii false true true true false true true false)
                                                     (String.String
                                                        (Ascii.Ascii false false true false true true true false)
                                                        (String.String
                                                           (Ascii.Ascii true true false false true true true false)
                                                           (String.String
                                                              (Ascii.Ascii false false true true false true false false)
                                                              (String.String
                                                                 (Ascii.Ascii false false false false false true false
                                                                    false)
                                                                 (String.String
                                                                    (Ascii.Ascii false false true false false true true
                                                                       false)
                                                                    (String.String
                                                                       (Ascii.Ascii false false true false true true
                                                                          true false)
                                                                       (String.String
                                                                          (Ascii.Ascii true false false true true true
                                                                             true false)
                                                                          (String.String
                                                                             (Ascii.Ascii false false false false true
                                                                                true true false)
                                                                             (String.String
                                                                                (Ascii.Ascii true false true false
                                                                                   false true true false)
                                                                                (String.String
                                                                                   (Ascii.Ascii true false true true
                                                                                      true true false false)
                                                                                   (String.String
                                                                                      (Ascii.Ascii false true true true
                                                                                         false true true false)
                                                                                      (String.String
                                                                                         (Ascii.Ascii false false false
                                                                                          false true true true false)
                                                                                         (String.String
                                                                                          (Ascii.Ascii false true true
                                                                                          true false true false false)
                                                                                          (String.String
                                                                                          (Ascii.Ascii false true true
                                                                                          false false true true false)
                                                                                          (String.String
                                                                                          (Ascii.Ascii false false true
                                                                                          true false true true false)
                                                                                          (String.String
                                                                                          (Ascii.Ascii true true true
                                                                                          true false true true false)
                                                                                          (String.String
                                                                                          (Ascii.Ascii true false false
                                                                                          false false true true false)
                                                                                          (String.String
                                                                                          (Ascii.Ascii false false true
                                                                                          false true true true false)
                                                                                          (String.String
                                                                                          (Ascii.Ascii false true true
                                                                                          false true true false false)
                                                                                          (String.String
                                                                                          (Ascii.Ascii false false true
                                                                                          false true true false false)
                                                                                          (String.String
                                                                                          (Ascii.Ascii true false false
                                                                                          true false true false false)
                                                                                          String.EmptyString)))))))))))))))))))))))))))))))))));
         String.String (Ascii.Ascii true true false false true true true false)
           (String.String (Ascii.Ascii true false true false false true true false)
              (String.String (Ascii.Ascii false false true true false true true false)
                 (String.String (Ascii.Ascii false true true false false true true false)
                    (String.String (Ascii.Ascii false true true true false true false false)
                       (String.String (Ascii.Ascii true true true true true false true false)
                          (String.String (Ascii.Ascii true true false false true true true false)
                             (String.String (Ascii.Ascii true true true true false true true false)
                                (String.String (Ascii.Ascii true false true false true true true false)
                                   (String.String (Ascii.Ascii false true false false true true true false)
                                      (String.String (Ascii.Ascii true true false false false true true false)
                                         (String.String (Ascii.Ascii true false true false false true true false)
                                            String.EmptyString)))))))))));
         String.String (Ascii.Ascii true true false false true true true false)
           (String.String (Ascii.Ascii false false true false true true true false)
              (String.String (Ascii.Ascii true false true false false true true false)
                 (String.String (Ascii.Ascii false false false false true true true false)
                    (String.String (Ascii.Ascii true true false false true true true false)
                       (String.String (Ascii.Ascii true false false true false true true false)
                          (String.String (Ascii.Ascii false true false true true true true false)
                             (String.String (Ascii.Ascii true false true false false true true false)
                                String.EmptyString)))))));
         String.String (Ascii.Ascii true false true true false true true false)
           (String.String (Ascii.Ascii true false false false false true true false)
              (String.String (Ascii.Ascii false false false true true true true false)
                 (String.String (Ascii.Ascii true true true true true false true false)
                    (String.String (Ascii.Ascii true true false false true true true false)
                       (String.String (Ascii.Ascii false false true false true true true false)
                          (String.String (Ascii.Ascii true false true false false true true false)
                             (String.String (Ascii.Ascii false false false false true true true false)
                                String.EmptyString)))))));
         String.String (Ascii.Ascii false false false true false true true false)
           (String.String (Ascii.Ascii true true true true false true true false)
              (String.String (Ascii.Ascii false true true true false true true false)
                 (String.String (Ascii.Ascii true true true true false true true false)
                    (String.String (Ascii.Ascii false true false false true true true false)
                       (String.String (Ascii.Ascii true true true true true false true false)
                          (String.String (Ascii.Ascii true true true false false true true false)
                             (String.String (Ascii.Ascii false true false false true true true false)
                                (String.String (Ascii.Ascii true false false true false true true false)
                                   (String.String (Ascii.Ascii false false true false false true true false)
                                      String.EmptyString)))))))))]) /\
       ApiGen.raytrace_3d_binding =
       [(String.String (Ascii.Ascii false true false true true true true false) String.EmptyString,
         String.String (Ascii.Ascii true true false false true true true false)
           (String.String (Ascii.Ascii true false true false false true true false)
              (String.String (Ascii.Ascii false false true true false true true false)
                 (String.String (Ascii.Ascii false true true false false true true false)
                    (String.String (Ascii.Ascii false true true true false true false false)
                       (String.String (Ascii.Ascii false true false true true true true false)
                          (String.String (Ascii.Ascii true false false false false true true false)
                             (String.String (Ascii.Ascii false false false true true true true false)
                                (String.String (Ascii.Ascii true false false true false true true false)
                                   (String.String (Ascii.Ascii true true false false true true true false)
                                      String.EmptyString))))))))));
        (String.String (Ascii.Ascii false false false true true true true false) String.EmptyString,
         String.String (Ascii.Ascii true true false false true true true false)
           (String.String (Ascii.Ascii true false true false false true true false)
              (String.String (Ascii.Ascii false false true true false true true false)
                 (String.String (Ascii.Ascii false true true false false true true false)
                    (String.String (Ascii.Ascii false true true true false true false false)
                       (String.String (Ascii.Ascii false false false true true true true false)
                          (String.String (Ascii.Ascii true false false false false true true false)
                             (String.String (Ascii.Ascii false false false true true true true false)
                                (String.String (Ascii.Ascii true false false true false true true false)
                                   (String.String (Ascii.Ascii true true false false true true true false)
                                      String.EmptyString))))))))));
        (String.String (Ascii.Ascii true false false true true true true false) String.EmptyString,
         String.String (Ascii.Ascii true true false false true true true false)
           (String.String (Ascii.Ascii true false true false false true true false)
              (String.String (Ascii.Ascii false false true true false true true false)
                 (String.String (Ascii.Ascii false true true false false true true false)
                    (String.String (Ascii.Ascii false true true true false true false false)
                       (String.String (Ascii.Ascii true false false true true true true false)
                          (String.String (Ascii.Ascii true false false false false true true false)
                             (String.String (Ascii.Ascii false false false true true true true false)
                                (String.String (Ascii.Ascii true false false true false true true false)
                                   (String.String (Ascii.Ascii true true false false true true true false)
                                      String.EmptyString))))))))));
        (String.String (Ascii.Ascii false true false true true true true false)
           (String.String (Ascii.Ascii true true true false false true true false)
              (String.String (Ascii.Ascii false true false false true true true false)
                 (String.String (Ascii.Ascii true false false false false true true false)
                    (String.String (Ascii.Ascii false false true false false true true false) String.EmptyString)))),
         String.String (Ascii.Ascii true true true false false true true false)
           (String.String (Ascii.Ascii false true false false true true true false)
              (String.String (Ascii.Ascii true false false false false true true false)
                 (String.String (Ascii.Ascii false false true false false true true false)
                    (String.String (Ascii.Ascii true false false true false true true false)
                       (String.String (Ascii.Ascii true false true false false true true false)
                          (String.String (Ascii.Ascii false true true true false true true false)
                             (String.String (Ascii.Ascii false false true false true true true false)
                                (String.String (Ascii.Ascii true true false true true false true false)
                                   (String.String (Ascii.Ascii false false false false true true false false)
                                      (String.String (Ascii.Ascii true false true true true false true false)
                                         (String.String (Ascii.Ascii false true true true false true false false)
                                            (String.String (Ascii.Ascii true true true false false true true false)
                                               (String.String (Ascii.Ascii false true false false true true true false)
                                                  (String.String
                                                     (Ascii.Ascii true false false true false true true false)
                                                     (String.String
                                                        (Ascii.Ascii false false true false false true true false)
                                                        String.EmptyString))))))))))))))));
        (String.String (Ascii.Ascii false false false true true true true false)
           (String.String (Ascii.Ascii true true true false false true true false)
              (String.String (Ascii.Ascii false true false false true true true false)
                 (String.String (Ascii.Ascii true false false false false true true false)
                    (String.String (Ascii.Ascii false false true false false true true false) String.EmptyString)))),
         String.String (Ascii.Ascii true true true false false true true false)
           (String.String (Ascii.Ascii false true false false true true true false)
              (String.String (Ascii.Ascii true false false false false true true false)
                 (String.String (Ascii.Ascii false false true false false true true false)
                    (String.String (Ascii.Ascii true false false true false true true false)
                       (String.String (Ascii.Ascii true false true false false true true false)
                          (String.String (Ascii.Ascii false true true true false true true false)
                             (String.String (Ascii.Ascii false false true false true true true false)
                                (String.String (Ascii.Ascii true true false true true false true false)
                                   (String.String (Ascii.Ascii true false false false true true false false)
                                      (String.String (Ascii.Ascii true false true true true false true false)
                                         (String.String (Ascii.Ascii false true true true false true false false)
                                            (String.String (Ascii.Ascii true true true false false true true false)
                                               (String.String (Ascii.Ascii false true false false true true true false)
                                                  (String.String
                                                     (Ascii.Ascii true false false true false true true false)
                                                     (String.String
                                                        (Ascii.Ascii false false true false false true true false)
                                                        String.EmptyString))))))))))))))));
        (String.String (Ascii.Ascii true false false true true true true false)
           (String.String (Ascii.Ascii true true true false false true true false)
              (String.String (Ascii.Ascii false true false false true true true false)
                 (String.String (Ascii.Ascii true false false false false true true false)
                    (String.String (Ascii.Ascii false false true false false true true false) String.EmptyString)))),
         String.String (Ascii.Ascii true true true false false true true false)
           (String.String (Ascii.Ascii false true false false true true true false)
              (String.String (Ascii.Ascii true false false false false true true false)
                 (String.String (Ascii.Ascii false false true false false true true false)
                    (String.String (Ascii.Ascii true false false true false true true false)
                       (String.String (Ascii.Ascii true false true false false true true false)
                          (String.String (Ascii.Ascii false true true true false true true false)
                             (String.String (Ascii.Ascii false false true false true true true false)
                                (String.String (Ascii.Ascii true true false true true false true false)
                                   (String.String (Ascii.Ascii false true false false true true false false)
                                      (String.String (Ascii.Ascii true false true true true false true false)
                                         (String.String (Ascii.Ascii false true true true false true false false)
                                            (String.String (Ascii.Ascii true true true false false true true false)
                                               (String.String (Ascii.Ascii false true false false true true true false)
                                                  (String.String
                                                     (Ascii.Ascii true false false true false true true false)
                                                     (String.String
                                                        (Ascii.Ascii false false true false false true true false)
                                                        String.EmptyString))))))))))))))));
        (String.String (Ascii.Ascii false false false false true true true false) String.EmptyString,
         String.String (Ascii.Ascii false true true true false true true false)
           (String.String (Ascii.Ascii false false false false true true true false)
              (String.String (Ascii.Ascii false true true true false true false false)
                 (String.String (Ascii.Ascii true false false false false true true false)
                    (String.String (Ascii.Ascii true true false false true true true false)
                       (String.String (Ascii.Ascii true false false false false true true false)
                          (String.String (Ascii.Ascii false true false false true true true false)
                             (String.String (Ascii.Ascii false true false false true true true false)
                                (String.String (Ascii.Ascii true false false false false true true false)
                                   (String.String (Ascii.Ascii true false false true true true true false)
                                      (String.String (Ascii.Ascii false false false true false true false false)
                                         (String.String (Ascii.Ascii false false false false true true true false)
                                            (String.String (Ascii.Ascii true true true true false true true false)
                                               (String.String (Ascii.Ascii true false false true false true true false)
                                                  (String.String
                                                     (Ascii.Ascii false true true true false true true false)
                                                     (String.String
                                                        (Ascii.Ascii false false true false true true true false)
                                                        (String.String
                                                           (Ascii.Ascii true true false false true true true false)
                                                           (String.String
                                                              (Ascii.Ascii false false true true false true false false)
                                                              (String.String
                                                                 (Ascii.Ascii false false false false false true false
                                                                    false)
                                                                 (String.String
                                                                    (Ascii.Ascii false false true false false true true
                                                                       false)
                                                                    (String.String
                                                                       (Ascii.Ascii false false true false true true
                                                                          true false)
                                                                       (String.String
                                                                          (Ascii.Ascii true false false true true true
                                                                             true false)
                                                                          (String.String
                                                                             (Ascii.Ascii false false false false true
                                                                                true true false)
                                                                             (String.String
                                                                                (Ascii.Ascii true false true false
                                                                                   false true true false)
                                                                                (String.String
                                                                                   (Ascii.Ascii true false true true
                                                                                      true true false false)
                                                                                   (String.String
                                                                                      (Ascii.Ascii false true true true
                                                                                         false true true false)
                                                                                      (String.String
                                                                                         (Ascii.Ascii false false false
                                                                                          false true true true false)
                                                                                         (String.String
                                                                                          (Ascii.Ascii false true true
                                                                                          true false true false false)
                                                                                          (String.String
                                                                                          (Ascii.Ascii false true true
                                                                                          false false true true false)
                                                                                          (String.String
                                                                                          (Ascii.Ascii false false true
                                                                                          true false true true false)
                                                                                          (String.String
                                                                                          (Ascii.Ascii true true true
                                                                                          true false true true false)
                                                                                          (String.String
                                                                                          (Ascii.Ascii true false false
                                                                                          false false true true false)
                                                                                          (String.String
                                                                                          (Ascii.Ascii false false true
                                                                                          false true true true false)
                                                                                          (String.String
                                                                                          (Ascii.Ascii false true true
                                                                                          false true true false false)
                                                                                          (String.String
                                                                                          (Ascii.Ascii false false true
                                                                                          false true true false false)
                                                                                          (String.String
                                                                                          (Ascii.Ascii true false false
                                                                                          true false true false false)
                                                                                          String.EmptyString))))))))))))))))))))))))))))))))))));
        (String.String (Ascii.Ascii true true false false true true true false)
           (String.String (Ascii.Ascii false true false false true true true false)
              (String.String (Ascii.Ascii true true false false false true true false) String.EmptyString)),
         String.String (Ascii.Ascii true true false false true true true false)
           (String.String (Ascii.Ascii true false true false false true true false)
              (String.String (Ascii.Ascii false false true true false true true false)
                 (String.String (Ascii.Ascii false true true false false true true false)
                    (String.String (Ascii.Ascii false true true true false true false false)
                       (String.String (Ascii.Ascii true true true true true false true false)
                          (String.String (Ascii.Ascii true true false false true true true false)
                             (String.String (Ascii.Ascii true true true true false true true false)
                                (String.String (Ascii.Ascii true false true false true true true false)
                                   (String.String (Ascii.Ascii false true false false true true true false)
                                      (String.String (Ascii.Ascii true true false false false true true false)
                                         (String.String (Ascii.Ascii true false true false false true true false)
                                            String.EmptyString))))))))))));
        (String.String (Ascii.Ascii true true false false true true true false)
           (String.String (Ascii.Ascii false false true false true true true false)
              (String.String (Ascii.Ascii true false true false false true true false)
                 (String.String (Ascii.Ascii false false false false true true true false)
                    (String.String (Ascii.Ascii true true false false true true true false)
                       (String.String (Ascii.Ascii true false false true false true true false)
                          (String.String (Ascii.Ascii false true false true true true true false)
                             (String.String (Ascii.Ascii true false true false false true true false)
                                String.EmptyString))))))),
         String.String (Ascii.Ascii true true false false true true true false)
           (String.String (Ascii.Ascii false false true false true true true false)
              (String.String (Ascii.Ascii true false true false false true true false)
                 (String.String (Ascii.Ascii false false false false true true true false)
                    (String.String (Ascii.Ascii true true false false true true true false)
                       (String.String (Ascii.Ascii true false false true false true true false)
                          (String.String (Ascii.Ascii false true false true true true true false)
                             (String.String (Ascii.Ascii true false true false false true true false)
                                String.EmptyString))))))));
        (String.String (Ascii.Ascii true false true true false true true false)
           (String.String (Ascii.Ascii true false false false false true true false)
              (String.String (Ascii.Ascii false false false true true true true false)
                 (String.String (Ascii.Ascii true true true true true false true false)
                    (String.String (Ascii.Ascii true true false false true true true false)
                       (String.String (Ascii.Ascii false false true false true true true false)
                          (String.String (Ascii.Ascii true false true false false true true false)
                             (String.String (Ascii.Ascii false false false false true true true false)
                                String.EmptyString))))))),
         String.String (Ascii.Ascii true false true true false true true false)
           (String.String (Ascii.Ascii true false false false false true true false)
              (String.String (Ascii.Ascii false false false true true true true false)
                 (String.String (Ascii.Ascii true true true true true false true false)
                    (String.String (Ascii.Ascii true true false false true true true false)
                       (String.String (Ascii.Ascii false false true false true true true false)
                          (String.String (Ascii.Ascii true false true false false true true false)
                             (String.String (Ascii.Ascii false false false false true true true false)
                                String.EmptyString))))))));
        (String.String (Ascii.Ascii false false false true false true true false)
           (String.String (Ascii.Ascii true true true true false true true false)
              (String.String (Ascii.Ascii false true true true false true true false)
                 (String.String (Ascii.Ascii true true true true false true true false)
                    (String.String (Ascii.Ascii false true false false true true true false)
                       (String.String (Ascii.Ascii true true true true true false true false)
                          (String.String (Ascii.Ascii true true true false false true true false)
                             (String.String (Ascii.Ascii false true false false true true true false)
                                (String.String (Ascii.Ascii true false false true false true true false)
                                   (String.String (Ascii.Ascii false false true false false true true false)
                                      String.EmptyString))))))))),
         String.String (Ascii.Ascii false false false true false true true false)
           (String.String (Ascii.Ascii true true true true false true true false)
              (String.String (Ascii.Ascii false true true true false true true false)
                 (String.String (Ascii.Ascii true true true true false true true false)
                    (String.String (Ascii.Ascii false true false false true true true false)
                       (String.String (Ascii.Ascii true true true true true false true false)
                          (String.String (Ascii.Ascii true true true false false true true false)
                             (String.String (Ascii.Ascii false true false false true true true false)
                                (String.String (Ascii.Ascii true false false true false true true false)
                                   (String.String (Ascii.Ascii false false true false false true true false)
                                      String.EmptyString))))))))))] /\
       map fst ApiGen.raytrace_3d_binding = ApiGen.ray3d_params /\
       map snd ApiGen.raytrace_3d_binding = snd ApiGen.raytrace_3d_call.
Proof. exact @ApiGenEq.gen_raytrace_3d_call. Qed.

Print Assumptions C10_terminates_within_budget_2d.
Print Assumptions C10_terminates_within_budget_3d.
Print Assumptions C10_count_range_2d.
Print Assumptions C10_count_range_3d.
Print Assumptions C10_endpoints_2d.
Print Assumptions C10_endpoints_3d.
Print Assumptions C10_vertices_in_hull_2d.
Print Assumptions C10_vertices_in_hull_3d.
Print Assumptions C10_value_error_iff_outside_2d.
Print Assumptions C10_nan_end_point_raises_2d.
Print Assumptions C10_free_loop_explicit_2d.
Print Assumptions C10_step_length_2d.
Print Assumptions C10_last_segment_2d.
Print Assumptions C10_step_length_3d.
Print Assumptions C10_last_segment_3d.
Print Assumptions C10_returned_polyline_step_length_2d.
Print Assumptions C10_last_segment_longer_than_a_step_witness.
Print Assumptions C10_budget_does_not_change_the_ray_2d.
Print Assumptions C10_budget_at_most_count_reports_exhaustion_2d.
Print Assumptions C10_public_ray_budget_characterisation_2d.
Print Assumptions C10_budget_does_not_change_the_ray_3d.
Print Assumptions C10_budget_at_most_count_reports_exhaustion_3d.
Print Assumptions C10_public_ray_budget_characterisation_3d.
Print Assumptions C10_raytrace_defaults_2d.
Print Assumptions C10_raytrace_defaults_3d.
Print Assumptions C10_raytrace_call_wiring_2d.
Print Assumptions C10_raytrace_call_wiring_3d.
