(* C10  Free-step rays run from source to receiver inside the grid (model: gen/Ray2d.v, gen/Ray3d.v; `while` loops are fuelled, and the theorems bound the fuel needed)
   Only statements and `exact`: the proofs are in proofs/.  Written by tools/mkprops.py from Coq's own printing of the
   lemma statements; every statement is in full below so that it cannot be weakened without this file changing. *)
From Coq Require Import ZArith List Bool Reals PrimFloat.
From FT.lib Require Import Num Arr ArrLemmas NumArr.
From FT.gen Require Import Common Interp2d Interp3d FteikCommon Ray2d Ray3d.
From FT.proofs Require Import NumFLaws Ray2dProofs.
From FT.proofs Require Ray3dProofs.
Import ListNotations.
Open Scope Z_scope.

(* free-step mode: with fuel max_step + 1 the tracer never runs out of fuel - every iteration stores a vertex and the budget test stops it (every numeric instance) *)
Theorem C10_terminates_within_budget_2d :
  forall (T : Type) (H : Num T) (z x zgrad xgrad : arr T) (zend xend zsrc xsrc stepsize : T) 
         (max_step : Z) (hg : bool) (fuel : nat),
       hg = false ->
       (Z.to_nat max_step + 1 <= fuel)%nat ->
       u_ray2d_core_v fuel z x zgrad xgrad zend xend zsrc xsrc stepsize max_step hg <> OutOfFuel.
Proof. exact @Ray2dProofs.ray2d_free_terminates. Qed.

(* 3D *)
Theorem C10_terminates_within_budget_3d :
  forall (T : Type) (H : Num T) (z x y zgrad xgrad ygrad : arr T) (zend xend yend zsrc xsrc ysrc stepsize : T)
         (max_step : Z) (hg : bool) (fuel : nat),
       hg = false ->
       (Z.to_nat max_step + 1 <= fuel)%nat ->
       u_ray3d_core_v fuel z x y zgrad xgrad ygrad zend xend yend zsrc xsrc ysrc stepsize max_step hg <> OutOfFuel.
Proof. exact @Ray3dProofs.ray3d_free_terminates. Qed.

(* what the core returns: count = -1 (end point outside), -2 (budget exhausted) or 1 <= count < max_step, and the buffer keeps its shape: a returned ray never exceeds the budget, never a truncated ray *)
Theorem C10_count_range_2d :
  forall (T : Type) (H : Num T) (z x zgrad xgrad : arr T) (zend xend zsrc xsrc stepsize : T) 
         (max_step : Z) (hg : bool) (fuel : nat) (ray : arr T) (count : Z),
       u_ray2d_core_v fuel z x zgrad xgrad zend xend zsrc xsrc stepsize max_step hg = Ok (ray, count) ->
       (count = -1 \/ count = -2 \/ 1 <= count < max_step) /\ shape ray = [max_step; 2].
Proof. exact @Ray2dProofs.ray2d_core_count_range. Qed.

(* 3D *)
Theorem C10_count_range_3d :
  forall (T : Type) (H : Num T) (z x y zgrad xgrad ygrad : arr T) (zend xend yend zsrc xsrc ysrc stepsize : T)
         (max_step : Z) (hg : bool) (fuel : nat) (ray : arr T) (count : Z),
       u_ray3d_core_v fuel z x y zgrad xgrad ygrad zend xend yend zsrc xsrc ysrc stepsize max_step hg = Ok (ray, count) ->
       (count = -1 \/ count = -2 \/ 1 <= count < max_step) /\ shape ray = [max_step; 3].
Proof. exact @Ray3dProofs.ray3d_core_count_range. Qed.

(* a returned polyline has count+1 rows, starts exactly at the source and ends exactly at the requested end point *)
Theorem C10_endpoints_2d :
  forall (T : Type) (H : Num T) (fuel : nat) (z x zgrad xgrad p src : arr T) (stepsize : T) 
         (max_step : Z) (hg : bool) (r : arr T),
       ray2d_1 fuel z x zgrad xgrad p src stepsize max_step hg = Ok r ->
       exists count : Z,
         1 <= count < max_step /\
         shape r = [count + 1; 2] /\
         get (nofZ 0) r [0; 0] = get (nofZ 0) src [0] /\
         get (nofZ 0) r [0; 1] = get (nofZ 0) src [1] /\
         get (nofZ 0) r [count; 0] = get (nofZ 0) p [0] /\ get (nofZ 0) r [count; 1] = get (nofZ 0) p [1].
Proof. exact @Ray2dProofs.ray2d_1_endpoints. Qed.

(* 3D *)
Theorem C10_endpoints_3d :
  forall (T : Type) (H : Num T) (fuel : nat) (z x y zgrad xgrad ygrad p src : arr T) (stepsize : T) 
         (max_step : Z) (hg : bool) (r : arr T),
       ray3d_1 fuel z x y zgrad xgrad ygrad p src stepsize max_step hg = Ok r ->
       exists count : Z,
         1 <= count < max_step /\
         shape r = [count + 1; 3] /\
         (get (nofZ 0) r [0; 0] = get (nofZ 0) src [0] /\
          get (nofZ 0) r [0; 1] = get (nofZ 0) src [1] /\ get (nofZ 0) r [0; 2] = get (nofZ 0) src [2]) /\
         get (nofZ 0) r [count; 0] = get (nofZ 0) p [0] /\
         get (nofZ 0) r [count; 1] = get (nofZ 0) p [1] /\ get (nofZ 0) r [count; 2] = get (nofZ 0) p [2].
Proof. exact @Ray3dProofs.ray3d_1_endpoints. Qed.

(* exact arithmetic: every stored vertex lies inside the grid hull (each new point is clamped), both modes *)
Theorem C10_vertices_in_hull_2d :
  forall (z x zgrad xgrad : arr R) (zend xend zsrc xsrc stepsize : R) (max_step : Z) (hg : bool) 
         (fuel : nat) (ray : arr R) (count : Z),
       (hg = true -> axis_ok z /\ axis_ok x) ->
       u_ray2d_core_v fuel z x zgrad xgrad zend xend zsrc xsrc stepsize max_step hg = Ok (ray, count) ->
       forall k : Z, 0 <= k < count -> row_in z x ray k.
Proof. exact @Ray2dProofs.ray2d_vertices_in_hull. Qed.

(* 3D *)
Theorem C10_vertices_in_hull_3d :
  forall (z x y zgrad xgrad ygrad : arr R) (zend xend yend zsrc xsrc ysrc stepsize : R) 
         (max_step : Z) (hg : bool) (fuel : nat) (ray : arr R) (count : Z),
       (hg = true -> axis_ok z /\ axis_ok x /\ axis_ok y) ->
       u_ray3d_core_v fuel z x y zgrad xgrad ygrad zend xend yend zsrc xsrc ysrc stepsize max_step hg = Ok (ray, count) ->
       forall k : Z, 0 <= k < count -> Ray3dProofs.row_in3 z x y ray k.
Proof. exact @Ray3dProofs.ray3d_vertices_in_hull. Qed.

(* ValueError exactly when the end point fails the hull test (modulo fuel) *)
Theorem C10_value_error_iff_outside_2d :
  forall (T : Type) (H : Num T) (z x zgrad xgrad : arr T) (zend xend zsrc xsrc stepsize : T) 
         (max_step : Z) (hg : bool) (fuel : nat),
       u_ray2d_v fuel z x zgrad xgrad zend xend zsrc xsrc stepsize max_step hg = OutOfFuel \/
       (u_ray2d_v fuel z x zgrad xgrad zend xend zsrc xsrc stepsize max_step hg = Raise ValueError <->
        hull2 z x zend xend = false).
Proof. exact @Ray2dProofs.ray2d_raises_value_error_iff. Qed.

(* binary64: a NaN end point raises ValueError *)
Theorem C10_nan_end_point_raises_2d :
  forall (z x zgrad xgrad : arr float) (zend xend zsrc xsrc stepsize : float) (max_step : Z) 
         (hg : bool) (fuel : nat),
       is_nan zend = true \/ is_nan xend = true ->
       u_ray2d_v fuel z x zgrad xgrad zend xend zsrc xsrc stepsize max_step hg = Raise ValueError.
Proof. exact @Ray2dProofs.ray2d_nan_end_point_raises. Qed.

Print Assumptions C10_terminates_within_budget_2d.
Print Assumptions C10_terminates_within_budget_3d.
Print Assumptions C10_count_range_2d.
Print Assumptions C10_count_range_3d.
Print Assumptions C10_endpoints_2d.
Print Assumptions C10_endpoints_3d.
Print Assumptions C10_vertices_in_hull_2d.
Print Assumptions C10_vertices_in_hull_3d.
Print Assumptions C10_value_error_iff_outside_2d.
Print Assumptions C10_nan_end_point_raises_2d.
